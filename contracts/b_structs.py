"""Bounded contract checks for the value classes of pharmpy.model / pharmpy.basic (C06: equality is an
equivalence consistent with hashing and copying, created objects are well formed; C12: to_dict/from_dict
and generic-code round trips) and for pharmpy.workflows.hashing.ModelHash (C12: the key identifies the
content across processes).

The Model spec also holds the frame of the writers / code generators (C06: no API call changes its
input): model.code, update_source, write_model, write_csv and write_files on models derived from a
parent with which they share their data frames (section "Model: the frame of the writers"), and the
converters to nlmixr / rxode / generic on models whose dataset has the optional NM-TRAN data items.

Equality consistent with hashing is also evaluated ALONG derivations (hashes are cached in the objects):
replace() of every class and frozenmapping.replace on an object that had been hashed before, and
transformations of a model that had been hashed before, against the same derivation of a never-hashed
object.  Round trips (dictionary form, generic code) are also evaluated on the ODE structures the API
produces and on compartmental systems with compartments that take part in no flow.

Corpora are built by ONE-FIELD PERTURBATION of a base set of constructor arguments (every entry is built
by a fresh constructor call; 'same' entries give the same value built differently).  All pairs of a class
are compared.  Nothing here is sampled.
"""
import warnings

warnings.filterwarnings('ignore')

import copy  # noqa: E402
import itertools  # noqa: E402
import json  # noqa: E402
import math  # noqa: E402
import os  # noqa: E402
import subprocess  # noqa: E402
import sys  # noqa: E402

SRC = 'src/pharmpy/'

# ------------------------------------------------------------------------------------------------
# clause names (stable keys)
# ------------------------------------------------------------------------------------------------
C_BUILD = 'create(documented valid arguments) returns an object'
C_REFL = 'x == x'
C_SYMM = '== is symmetric'
C_NE = 'x != y is the negation of x == y'
C_TRANS = '== is transitive'
C_EQRAISE = '== between two objects of the class never raises'
C_FOREIGN = 'x == None and x == object() are False without an exception'
C_HASHWORKS = 'hash(x) works'
C_HASH = 'x == y implies hash(x) == hash(y)'
C_DICT = 'x == y implies x.to_dict() == y.to_dict()'
C_JSON = 'to_dict(x) is JSON-compatible: json.loads(json.dumps(to_dict(x))) == to_dict(x) up to tuple/list'
C_RT = 'from_dict(to_dict(x)) == x and is hashable'
C_RTJ = 'from_dict(json.loads(json.dumps(to_dict(x)))) == x and is hashable'
C_RTH = 'from_dict(json.loads(json.dumps(to_dict(x)))) hashes like x'
C_COPY = 'copy.copy(x) == x and copy.deepcopy(x) == x'
C_SAME = 'the same value built differently compares equal'
C_STORE = 'create stores the given argument (the accessor returns it)'
C_GENERIC = 'generic model code parses back to an equal model'
C_WF_PARAM = 'Parameter.create returns iff not nan(init) and lower <= init <= upper, else ValueError'
C_WF_PARAM_REPL = 'Parameter.replace / Parameters.set_initial_estimates keep init within bounds or raise ValueError'
C_WF_NAMES = 'names are unique in the returned collection, else ValueError'
C_WF_NAMES_INDEX = 'indexing with a list of names returns a collection with unique names'
C_WF_INVALID = 'invalid constructor arguments raise the documented ValueError/TypeError'
C_WF_STATS = 'Model.create raises ValueError iff a statement uses an undefined or later-defined symbol'
C_DERIVE = ('x.replace(...) does not depend on whether x had been hashed before: the two results are equal and '
            'equal objects (also the one created directly from the same arguments) have equal hashes')
C_FM_REPLACE = ('frozenmapping.replace returns the mapping with the key set - equal to and hashing like the '
                'mapping created directly - and leaves the source unchanged, whether or not the source had been '
                'hashed before')
C_MODEL_DERIVE = ('a transformation of a model that had been hashed before gives a model equal to, and hashing '
                  'like, the same transformation of a never-hashed copy of that model')


def _fid(cls, meth=None):
    owner = cls
    if meth is not None:
        for k in cls.__mro__:
            if meth in k.__dict__:
                owner = k
                break
        if not owner.__module__.startswith('pharmpy'):
            owner, meth = cls, None
    path = SRC + owner.__module__[len('pharmpy.'):].replace('.', '/') + '.py'
    return path + ':' + owner.__qualname__ + ('.' + meth if meth else '')


def _short(v, n=70):
    try:
        s = repr(v).replace('\n', ' ')
    except Exception as e:
        s = f'<{type(v).__name__}: repr raised {type(e).__name__}>'
    if ' at 0x' in s:
        import re

        s = re.sub(r' at 0x[0-9a-f]+', '', s)
    return s if len(s) <= n else s[: n - 3] + '...'


def _exc(e):
    return f'{type(e).__name__}: {str(e)[:160]}'


def _norm(v):
    """tuple -> list (the only difference JSON is allowed to make)"""
    if isinstance(v, (tuple, list)):
        return [_norm(a) for a in v]
    if isinstance(v, dict):
        return {k: _norm(a) for k, a in v.items()}
    return v


class Entry:
    def __init__(self, label, thunk, same_as=None, field=None, value=None):
        self.label = label
        self.thunk = thunk
        self.same_as = same_as
        self.field = field
        self.value = value
        self.obj = None
        self.derive = None  # (make, base arguments, overrides) of a one-field perturbation


def _perturb(make, base, alts=(), sames=(), extra=()):
    """base: dict of constructor arguments.  alts / sames: list of dicts of overrides (one field unless
    a second one is forced by a documented constraint).  sames are expected to be == base.
    extra: list of (label, thunk, same_as)."""
    ents = [Entry('base', lambda: make(**base)), Entry('base#2', lambda: make(**base), same_as='base')]
    seen = {'base', 'base#2'}

    def lab(ov, prefix=''):
        if '_label' in ov:
            s = prefix + ov.pop('_label')
        else:
            s = prefix + ','.join(f'{k}={_short(v, 50)}' for k, v in ov.items())
        k, t = 1, s
        while t in seen:
            k += 1
            t = f'{s}#{k}'
        seen.add(t)
        return t

    for ov in alts:
        ov = dict(ov)
        label = lab(ov)
        f, v = (next(iter(ov.items())) if len(ov) == 1 else (None, None))
        ents.append(Entry(label, (lambda ov=ov: make(**{**base, **ov})), field=f, value=v))
        ents[-1].derive = (make, base, ov)
    for ov in sames:
        ov = dict(ov)
        label = lab(ov, 'same:')
        ents.append(Entry(label, (lambda ov=ov: make(**{**base, **ov})), same_as='base'))
    for label, thunk, same in extra:
        assert label not in seen, label
        seen.add(label)
        ents.append(Entry(label, thunk, same_as=same))
    return ents


class Spec:
    """One value class: corpus + (de)serialisation + well-formedness cases"""

    def __init__(self, name, cls, entries, to_dict=None, from_dict=None, wf=None, dict_names=None,
                 create_name='create'):
        self.name = name
        self.cls = cls
        self.entries = entries  # callable(tier) -> list[Entry]
        self.to_dict = to_dict
        self.from_dict = from_dict
        self.wf = wf  # callable(tier) -> iterable of (case_id, thunk -> list of (fid, clause, ok, detail))
        self.dict_names = dict_names or ('to_dict', 'from_dict')
        self.create_name = create_name

    def fid(self, what):
        if what == 'to_dict':
            return _fid(self.cls, self.dict_names[0])
        if what == 'from_dict':
            return _fid(self.cls, self.dict_names[1])
        if what == 'create':
            return _fid(self.cls, self.create_name)
        return _fid(self.cls, what)


# ------------------------------------------------------------------------------------------------
# clause evaluation
# ------------------------------------------------------------------------------------------------
def _eq(x, y):
    r = x == y
    if r is NotImplemented:
        return False
    if not isinstance(r, bool):
        # numpy.bool_ etc. are tolerated, anything else (tuple, ...) is not a truth value of ==
        if type(r).__name__ in ('bool_', 'bool'):
            return bool(r)
        raise TypeError(f'== returned {type(r).__name__} {r!r}')
    return r


def _unary(spec, x, ent, base_obj):
    """-> list of (fid, clause, ok, detail) for one corpus object"""
    out = []

    def rec(fid, clause, ok, detail=''):
        out.append((fid, clause, bool(ok), detail))

    # reflexive
    try:
        ok = _eq(x, x) and not (x != x)
        rec(spec.fid('__eq__'), C_REFL, ok, f'x == x is {x == x}, x != x is {x != x}')
    except Exception as e:
        rec(spec.fid('__eq__'), C_REFL, False, 'raised ' + _exc(e))
    # hash works
    hx = None
    try:
        hx = hash(x)
        rec(spec.fid('__hash__'), C_HASHWORKS, isinstance(hx, int) and hash(x) == hx, f'hash gave {hx!r}')
    except Exception as e:
        rec(spec.fid('__hash__'), C_HASHWORKS, False, 'raised ' + _exc(e))
    # foreign (not for pharmpy.model.execution_steps.ExecutionStep itself: that base class is not
    # part of the public API - only EstimationStep/SimulationStep are exported - so the property,
    # which speaks about API objects, does not cover it; removed after triage as a false alarm)
    try:
        if type(x).__name__ != 'ExecutionStep':
            r1, r2 = x == None, x == object()  # noqa: E711
            ok = (r1 is False or r1 is NotImplemented) and (r2 is False or r2 is NotImplemented)
            rec(spec.fid('__eq__'), C_FOREIGN, ok, f'x == None gave {r1!r}, x == object() gave {r2!r}')
    except Exception as e:
        rec(spec.fid('__eq__'), C_FOREIGN, False, 'raised ' + _exc(e))
    # copy
    try:
        c1, c2 = copy.copy(x), copy.deepcopy(x)
        ok = _eq(c1, x) and _eq(c2, x) and _eq(x, c1) and _eq(x, c2)
        det = f'copy == x: {_eq(c1, x)}, deepcopy == x: {_eq(c2, x)}'
        if ok and hx is not None:
            ok = hash(c1) == hx and hash(c2) == hx
            det += f'; hash(copy) == hash(x): {hash(c1) == hx}, hash(deepcopy) == hash(x): {hash(c2) == hx}'
        rec(spec.fid('__copy__'), C_COPY, ok, det)
    except Exception as e:
        rec(spec.fid('__copy__'), C_COPY, False, 'raised ' + _exc(e))
    # same value built differently
    if ent.same_as is not None and base_obj is not None:
        try:
            ok = _eq(x, base_obj) and _eq(base_obj, x)
            rec(spec.fid('__eq__'), C_SAME, ok, f'{ent.label} == {ent.same_as} is {_eq(x, base_obj)}')
        except Exception as e:
            rec(spec.fid('__eq__'), C_SAME, False, 'raised ' + _exc(e))
    # stores the argument
    if ent.field is not None and isinstance(ent.value, (str, int, float, bool)) and hasattr(x, ent.field):
        try:
            got = getattr(x, ent.field)
            val = ent.value
            if isinstance(val, str):
                if got is None:
                    ok = False
                else:
                    ok = None if not isinstance(got, str) else got.upper() == val.upper()
            else:
                ok = bool(got == val)
            if ok is not None:
                rec(spec.fid('create'), C_STORE, ok, f'created with {ent.field}={val!r}, accessor gives {got!r}')
        except Exception as e:
            rec(spec.fid('create'), C_STORE, False, 'raised ' + _exc(e))
    # serialisation
    if getattr(spec, 'extra_unary', None) is not None:
        out.extend(spec.extra_unary(x, ent))
    if spec.to_dict is not None:
        d = None
        try:
            d = spec.to_dict(x)
        except Exception as e:
            rec(spec.fid('to_dict'), C_JSON, False, 'to_dict raised ' + _exc(e))
        if d is not None:
            try:
                r = spec.from_dict(d)
                try:
                    ok = _eq(r, x) and _eq(x, r)
                except Exception as e:
                    ok = None
                    rec(spec.fid('__eq__'), C_EQRAISE, False, 'from_dict(to_dict(x)) == x raised ' + _exc(e))
                if ok is not None:
                    det = f'from_dict(to_dict(x)) == x is {ok}'
                    if ok:
                        try:
                            hash(r)
                        except Exception as e:
                            ok = False
                            det += '; hash(round trip) raised ' + _exc(e)
                    rec(spec.fid('from_dict'), C_RT, ok, det)
            except Exception as e:
                rec(spec.fid('from_dict'), C_RT, False, 'raised ' + _exc(e))
            js = None
            try:
                js = json.dumps(d)
                back = json.loads(js)
                ok = back == _norm(d)
                rec(spec.fid('to_dict'), C_JSON, ok, 'json round trip of to_dict(x) changed the data'
                    if not ok else '')
            except Exception as e:
                js = None
                rec(spec.fid('to_dict'), C_JSON, False, 'json.dumps(to_dict(x)) raised ' + _exc(e))
            if js is not None:
                try:
                    r = spec.from_dict(json.loads(js))
                    try:
                        ok = _eq(r, x) and _eq(x, r)
                    except Exception as e:
                        rec(spec.fid('__eq__'), C_EQRAISE, False, 'from_dict(json(to_dict(x))) == x raised ' + _exc(e))
                        return out
                    det = f'round trip == x is {ok}'
                    if not ok:
                        det += '; differing fields: ' + _diff_fields(r, x)
                    hr = None
                    try:
                        hr = hash(r)
                    except Exception as e:
                        ok = False
                        det += '; hash(round trip) raised ' + _exc(e)
                    rec(spec.fid('from_dict'), C_RTJ, ok, det)
                    if ok and hx is not None and hr is not None:
                        rec(spec.fid('__hash__'), C_RTH, hr == hx, f'hash(round trip) == hash(x) is {hr == hx}')
                except Exception as e:
                    rec(spec.fid('from_dict'), C_RTJ, False, 'raised ' + _exc(e))
    return out


def _diff_fields(a, b):
    try:
        da, db = a.__dict__, b.__dict__
        skip = ('_hash', '_internals') + (('_name', '_description', '_dataset') if type(a).__name__ == 'Model' else ())
        names = [k for k in da if k in db and k not in skip and not _safe_eq(da[k], db[k])]
        return ', '.join(f'{k}: {_short(da[k], 40)} vs {_short(db[k], 40)}' for k in names[:4]) or '?'
    except Exception:
        return '?'


def _safe_eq(a, b):
    try:
        return bool(a == b)
    except Exception:
        return a is b


def _build(spec, tier):
    """-> (entries with .obj set, list of build failures)"""
    ents, fails = [], []
    for ent in spec.entries(tier):
        try:
            ent.obj = ent.thunk()
        except Exception as e:
            fails.append((spec.fid('create'), C_BUILD, False, f'building {ent.label} raised ' + _exc(e), ent.label))
            continue
        ents.append(ent)
    return ents, fails


def _pairwise(spec, ents):
    """-> (list of (fid, clause, ok, detail, xlabel, ylabel), number of equal pairs i<j)"""
    n = len(ents)
    out = []
    E = [[None] * n for _ in range(n)]
    for i in range(n):
        for j in range(n):
            try:
                E[i][j] = _eq(ents[i].obj, ents[j].obj)
            except Exception as e:
                E[i][j] = None
                out.append((spec.fid('__eq__'), C_EQRAISE, False, 'x == y raised ' + _exc(e), i, j))
    hashes, dicts = [], []
    for e in ents:
        try:
            hashes.append(hash(e.obj))
        except Exception:
            hashes.append(None)
        try:
            dicts.append(_norm(spec.to_dict(e.obj)) if spec.to_dict else None)
        except Exception:
            dicts.append(None)
    neq = 0
    feq, fhash, fdict = spec.fid('__eq__'), spec.fid('__hash__'), spec.fid('to_dict')
    for i in range(n):
        x = ents[i].obj
        for j in range(n):
            eij = E[i][j]
            if i == j or eij is None:
                continue
            y = ents[j].obj
            if E[j][i] is not None and eij != E[j][i]:
                out.append((feq, C_SYMM, False, f'x == y is {eij} but y == x is {E[j][i]}', i, j))
            try:
                ne = x != y
                if bool(ne) != (not eij):
                    out.append((feq, C_NE, False, f'x == y is {eij} and x != y is {ne!r}', i, j))
            except Exception as e:
                out.append((feq, C_NE, False, 'x != y raised ' + _exc(e), i, j))
            if eij:
                if i < j:
                    neq += 1
                if hashes[i] is not None and hashes[j] is not None and hashes[i] != hashes[j]:
                    out.append((fhash, C_HASH, False, 'x == y but hash(x) != hash(y)', i, j))
                if dicts[i] is not None and dicts[j] is not None and dicts[i] != dicts[j]:
                    out.append((fdict, C_DICT, False,
                                'x == y but to_dict differs: ' + _dict_diff(dicts[i], dicts[j]), i, j))
    # transitivity through equivalence classes
    cls_of = []
    for i in range(n):
        c = i
        for j in range(i):
            if E[i][j]:
                c = cls_of[j]
                break
        cls_of.append(c)
    for i in range(n):
        for j in range(n):
            if E[i][j] is None or i == j:
                continue
            if E[i][j] != (cls_of[i] == cls_of[j]):
                # witness: i ~ rep(i), j ~ rep(j)
                out.append((feq, C_TRANS, False,
                            f'{ents[i].label} == {ents[j].label} is {E[i][j]} although '
                            f'{ents[i].label} == {ents[cls_of[i]].label} and {ents[j].label} == '
                            f'{ents[cls_of[j]].label}', i, j))
    return out, neq


def _dict_diff(a, b, path=''):
    if isinstance(a, dict) and isinstance(b, dict):
        for k in a:
            if k not in b:
                return f'{path}/{k} missing'
            if a[k] != b[k]:
                return _dict_diff(a[k], b[k], f'{path}/{k}')
        return f'{path}: keys differ'
    if isinstance(a, list) and isinstance(b, list) and len(a) == len(b):
        for k, (u, v) in enumerate(zip(a, b)):
            if u != v:
                return _dict_diff(u, v, f'{path}[{k}]')
    return f'{path}: {_short(a, 60)} vs {_short(b, 60)}'


def _derive_case(fid, make, base, ov):
    """base.replace(**ov) on a never-hashed and on a hashed base object, and create(**base, **ov)"""
    def attempt(hashed):
        src = make(**base)
        if hashed:
            hash(src)
        try:
            return 'returned', src.replace(**ov)
        except Exception as e:
            return 'raised', _exc(e)

    a, b = attempt(False), attempt(True)
    if a[0] != b[0]:
        return [(fid, C_DERIVE, False, f'replace on the never-hashed object {a[0]} {_short(a[1], 60)}, on the '
                 f'hashed object {b[0]} {_short(b[1], 60)}')]
    if a[0] == 'raised':
        return [(fid, C_DERIVE, True, '')]  # replace() does not accept these arguments
    x, y = a[1], b[1]
    try:
        same = _eq(x, y) and _eq(y, x)
    except Exception as e:
        return [(fid, C_DERIVE, False, 'comparing the two results raised ' + _exc(e))]
    if not same:
        return [(fid, C_DERIVE, False, f'replace on the never-hashed object gives {_short(x, 60)}, on the hashed '
                 f'object {_short(y, 60)}')]
    if hash(x) != hash(y):
        return [(fid, C_DERIVE, False, 'the results are equal but the one derived from the hashed object has '
                 f'another hash ({_short(y, 60)})')]
    try:
        z = make(**{**base, **ov})
    except Exception:
        return [(fid, C_DERIVE, True, '')]
    for name, r in (('never-hashed', x), ('hashed', y)):
        if _eq(r, z) and _eq(z, r) and hash(r) != hash(z):
            return [(fid, C_DERIVE, False, f'the result of replace on the {name} object equals the object created '
                     f'directly ({_short(z, 60)}) but has another hash')]
    return [(fid, C_DERIVE, True, '')]


def _derive_wf(spec, tier):
    """replace() on a hashed source, for every one-field perturbation of the base arguments of a class with
    create() and replace()"""
    if not hasattr(spec.cls, 'replace'):
        return
    fid = spec.fid('replace')
    for ent in spec.entries(tier):
        if ent.derive is None:
            continue
        make, base, ov = ent.derive
        if getattr(make, '__self__', None) is not spec.cls:
            continue  # the corpus of this class wraps the constructor arguments
        yield (f'base.replace({ent.label}) with base hashed before / never hashed',
               (lambda make=make, base=base, ov=ov: _derive_case(fid, make, base, ov)))


def _all_wf(spec, tier):
    """the well-formedness cases of the class followed by the generic replace-after-hash cases"""
    if spec.wf is not None:
        yield from spec.wf(tier)
    yield from _derive_wf(spec, tier)


def _wf_eval(spec, thunk):
    try:
        return thunk()
    except Exception as e:
        return [(spec.fid('create'), C_WF_INVALID, False, 'internal error ' + _exc(e))]


def _wf_worker(args):
    """the cases number k, k + step, k + 2*step, ... of the class (the case list is rebuilt in the worker)"""
    name, tier, k, step = args
    warnings.filterwarnings('ignore')
    spec = next(sp for sp in _specs() if sp.name == name)
    out = []
    for i, (case_id, thunk) in enumerate(_all_wf(spec, tier)):
        if i % step == k:
            out.append((i, case_id, _wf_eval(spec, thunk)))
    return out


WF_NPROC = 16


def _wf_results(spec, tier):
    """(case id, results) of every well-formedness case in enumeration order.  The cases of a class marked
    parallel_wf (independent of each other: each builds its own objects) are evaluated by a pool of forked
    workers."""
    if not getattr(spec, 'parallel_wf', False):
        for case_id, thunk in _all_wf(spec, tier):
            yield case_id, _wf_eval(spec, thunk)
        return
    import multiprocessing

    _pheno()  # loaded once, inherited by the workers
    ctx = multiprocessing.get_context('fork')
    with ctx.Pool(WF_NPROC) as pool:
        parts = pool.map(_wf_worker, [(spec.name, tier, k, WF_NPROC) for k in range(WF_NPROC)], chunksize=1)
    for i, case_id, results in sorted((r for part in parts for r in part), key=lambda r: r[0]):
        yield case_id, results


def _check_spec(spec, tier):
    """-> (cases, nontrivial, fails(dict key->fail), samples)"""
    fails = {}

    def note(fid, clause, ok, detail, case):
        if ok:
            return
        key = (fid, clause)
        full = dict(case, cls=spec.name, clause=clause, fid=fid)
        if key in fails:
            fails[key]['failing_cases'] += 1
            # every failing case of the clause, in enumeration order (tools/BOUNDED_GUIDE.md, `also`)
            if len(fails[key]['also']) < 300 and full not in fails[key]['also']:
                fails[key]['also'].append(full)
        if key not in fails:
            fails[key] = {'fid': fid, 'clause': clause, 'detail': f'[{spec.name}] ' + detail,
                          'case': full,
                          'failing_cases': 1, 'also': [dict(full)],
                          'replay_fn': 'bounded_value_classes_replay'}

    ents, bfails = _build(spec, tier)
    for fid, clause, ok, detail, label in bfails:
        note(fid, clause, ok, detail, {'kind': 'build', 'x': label})
    by_label = {e.label: e for e in ents}
    cases = nontriv = 0
    for ent in ents:
        base = by_label.get(ent.same_as) if ent.same_as else None
        cases += 1
        nontriv += 1
        for fid, clause, ok, detail in _unary(spec, ent.obj, ent, base.obj if base else None):
            if not ok:
                note(fid, clause, ok, f'x = {ent.label} ({_short(ent.obj, 80)}): ' + detail,
                     {'kind': 'unary', 'x': ent.label})
    res, neq = _pairwise(spec, ents)
    cases += len(ents) * (len(ents) - 1)
    nontriv += neq
    for fid, clause, ok, detail, i, j in res:
        if not ok:
            note(fid, clause, ok, f'x = {ents[i].label}, y = {ents[j].label}: ' + detail,
                 {'kind': 'pair', 'x': ents[i].label, 'y': ents[j].label})
    for case_id, results in _wf_results(spec, tier):
        cases += 1
        nontriv += 1
        for fid, clause, ok, detail in results:
            note(fid, clause, ok, f'{case_id}: ' + detail, {'kind': 'wf', 'x': case_id})
    samples = [f'{spec.name}:{e.label}' for e in ents[2:4]]
    return cases, nontriv, fails, samples


# ------------------------------------------------------------------------------------------------
# specs: pharmpy.basic and frozenmapping
# ------------------------------------------------------------------------------------------------
def _expr_entries(tier):
    import sympy

    from pharmpy.basic import Expr

    x, y = Expr.symbol('x'), Expr.symbol('y')
    atoms = [('x', x), ('y', y), ('0', Expr.integer(0)), ('1', Expr.integer(1)), ('2', Expr.integer(2)),
             ('0.5', Expr.float(0.5)), ('1/2', Expr.integer(1) / 2)]
    unary = [('id', lambda a: Expr(a)), ('neg', lambda a: -a), ('exp', lambda a: a.exp()),
             ('log', lambda a: a.log()), ('sqrt', lambda a: a.sqrt()), ('abs', lambda a: abs(a))]
    binary = [('+', lambda a, b: a + b), ('-', lambda a, b: a - b), ('*', lambda a, b: a * b),
              ('/', lambda a, b: a / b), ('**', lambda a, b: a**b)]
    ents = []
    level1 = []
    for an, a in atoms:
        for un, u in unary:
            lab = f'{un}({an})'
            ents.append(Entry(lab, (lambda u=u, a=a: u(a))))
            level1.append((lab, u, a))
    for (an, a), (bn, b) in itertools.product(atoms, atoms):
        for on, o in binary:
            ents.append(Entry(f'({an}){on}({bn})', (lambda o=o, a=a, b=b: o(a, b))))
    if tier == 'thorough':
        for (lab, u, a), (bn, b) in itertools.product(level1, atoms):
            for on, o in binary:
                ents.append(Entry(f'({lab}){on}({bn})', (lambda o=o, u=u, a=a, b=b: o(u(a), b))))
    t = Expr.symbol('t')
    extra = [
        ('str:x', lambda: Expr('x'), 'id(x)'),
        ('sympy:x', lambda: Expr(sympy.Symbol('x')), 'id(x)'),
        ('str:x+y', lambda: Expr('x + y'), '(x)+(y)'),
        ('str:y+x', lambda: Expr('y + x'), '(x)+(y)'),
        ('sympy:x*y', lambda: Expr(sympy.Symbol('y') * sympy.Symbol('x')), '(x)*(y)'),
        ('int:2', lambda: Expr(2), 'id(2)'),
        ('float:0.5', lambda: Expr(0.5), 'id(0.5)'),
        ('function', lambda: Expr.function('A_CENTRAL', 't'), None),
        ('function#2', lambda: Expr.function('A_CENTRAL', t), 'function'),
        ('function:other name', lambda: Expr.function('A_DEPOT', 't'), None),
        ('function:other arg', lambda: Expr.function('A_CENTRAL', 'x'), None),
        ('derivative', lambda: Expr.derivative(Expr.function('A_CENTRAL', 't'), t), None),
        ('piecewise', lambda: Expr.piecewise((x, x > 0), (Expr.integer(0), True)), None),
        ('piecewise#2', lambda: Expr.piecewise((x, x > 0), (Expr.integer(0), True)), 'piecewise'),
        ('piecewise:other cond', lambda: Expr.piecewise((x, y > 0), (Expr.integer(0), True)), None),
        ('piecewise:le', lambda: Expr.piecewise((x + 1, x <= 2), (y, True)), None),
        ('sign', lambda: x.sign(), None),
        ('theta*exp(eta)', lambda: Expr('THETA1*exp(ETA1)'), None),
        ('exp(eta)*theta', lambda: Expr('exp(ETA1)*THETA1'), 'theta*exp(eta)'),
        ('float:1.0', lambda: Expr.float(1.0), None),
        ('float:1e-10', lambda: Expr.float(1e-10), None),
        ('float:0.1', lambda: Expr.float(0.1), None),
        ('float:1/3', lambda: Expr.float(1 / 3), None),
    ]
    labels = {e.label for e in ents}
    for lab, th, same in extra:
        assert lab not in labels
        ents.append(Entry(lab, th, same_as=same))
    return ents


def _matrix_entries(tier):
    import symengine
    import sympy

    from pharmpy.basic import Expr, Matrix

    x, y = Expr.symbol('x'), Expr.symbol('y')
    vals = [
        ('empty', lambda: Matrix(()), None),
        ('empty#2', lambda: Matrix([]), 'empty'),
        ('[[1]]', lambda: Matrix([[1]]), None),
        ('[[2]]', lambda: Matrix([[2]]), None),
        ('[[x]]', lambda: Matrix([[x]]), None),
        ('[[x]]:sym', lambda: Matrix([[sympy.Symbol('x')]]), '[[x]]'),
        ('2x2', lambda: Matrix([[1, 2], [3, 4]]), None),
        ('2x2:tuple', lambda: Matrix(((1, 2), (3, 4))), '2x2'),
        ('2x2:sympy', lambda: Matrix(sympy.Matrix([[1, 2], [3, 4]])), '2x2'),
        ('2x2:symengine', lambda: Matrix(symengine.Matrix([[1, 2], [3, 4]])), '2x2'),
        ('2x2:Matrix', lambda: Matrix(Matrix([[1, 2], [3, 4]])), '2x2'),
        ('2x2:transposed', lambda: Matrix([[1, 3], [2, 4]]), None),
        ('2x2:one entry', lambda: Matrix([[1, 2], [3, 5]]), None),
        ('2x2:float', lambda: Matrix([[1.0, 2.0], [3.0, 4.0]]), None),
        ('col', lambda: Matrix([1, 2]), None),
        ('col#2', lambda: Matrix([[1], [2]]), 'col'),
        ('row', lambda: Matrix([[1, 2]]), None),
        ('sym2x2', lambda: Matrix([[x, y], [y, x]]), None),
        ('sym2x2:str', lambda: Matrix([['x', 'y'], ['y', 'x']]), 'sym2x2'),
        ('sym2x2:swapped', lambda: Matrix([[y, x], [x, y]]), None),
        ('sym2x2:expr', lambda: Matrix([[x + y, 0], [0, x * y]]), None),
        ('sym2x2:expr commuted', lambda: Matrix([[y + x, 0], [0, y * x]]), 'sym2x2:expr'),
        ('3x3', lambda: Matrix([[1, 0, 0], [0, 1, 0], [0, 0, 1]]), None),
        ('float 0.1', lambda: Matrix([[0.1, 0.01], [0.01, 0.1]]), None),
        ('add', lambda: Matrix([[1, 1], [1, 1]]) + Matrix([[0, 1], [2, 3]]), '2x2'),
    ]
    return [Entry(lab, th, same_as=same) for lab, th, same in vals]


def _unit_entries(tier):
    import sympy

    from pharmpy.basic import Unit

    vals = [
        ('1', lambda: Unit('1'), None),
        ('unitless', lambda: Unit.unitless(), '1'),
        ('int 1', lambda: Unit(sympy.Integer(1)), '1'),
        ('kg', lambda: Unit('kg'), None),
        ('kilogram', lambda: Unit('kilogram'), 'kg'),
        ('Unit(kg)', lambda: Unit(Unit('kg')), 'kg'),
        ('mg', lambda: Unit('mg'), None),
        ('mg/L', lambda: Unit('mg/L'), None),
        ('mg/l', lambda: Unit('mg/l'), 'mg/L'),
        ('L/h', lambda: Unit('L/h'), None),
        ('h/L', lambda: Unit('h/L'), None),
        ('L/h/kg', lambda: Unit('L/h/kg'), None),
        ('L/(h*kg)', lambda: Unit('L/(h*kg)'), 'L/h/kg'),
        ('ml', lambda: Unit('ml'), None),
        ('h', lambda: Unit('h'), None),
        ('hour', lambda: Unit('hour'), 'h'),
        ('kg**2', lambda: Unit('kg**2'), None),
        ('custom', lambda: Unit('IU'), None),
        ('custom/h', lambda: Unit('IU/h'), None),
        ('2', lambda: Unit('2'), None),
    ]
    return [Entry(lab, th, same_as=same) for lab, th, same in vals]


def _frozenmapping_entries(tier):
    from pharmpy.internals.immutable import frozenmapping

    def mk(mapping):
        return frozenmapping(mapping)

    base = {'mapping': {'a': 1, 'b': 2}}
    alts = [{'mapping': {}}, {'mapping': {'a': 1}}, {'mapping': {'a': 1, 'b': 3}}, {'mapping': {'a': 2, 'b': 1}},
            {'mapping': {'a': 1, 'b': 2, 'c': 3}}, {'mapping': {'a': 1, 'c': 2}}, {'mapping': {1: 'a', 2: 'b'}}]
    sames = [{'mapping': {'b': 2, 'a': 1}}, {'mapping': [('a', 1), ('b', 2)]}, {'mapping': (('b', 2), ('a', 1))}]
    extra = [
        ('from frozenmapping', lambda: frozenmapping(frozenmapping({'a': 1, 'b': 2})), 'base'),
        ('replace', lambda: frozenmapping({'a': 1, 'b': 0}).replace('b', 2), 'base'),
        ('replace:new key', lambda: frozenmapping({'b': 2}).replace('a', 1), 'base'),
        ('3 keys', lambda: frozenmapping({'a': 1, 'b': 2, 'c': 3}), None),
        ('3 keys rotated', lambda: frozenmapping({'c': 3, 'a': 1, 'b': 2}), '3 keys'),
    ]
    return _perturb(mk, base, alts, sames, extra)


def _frozenmapping_wf(tier):
    """replace(key, value) against dict semantics: every base mapping x key (present / new) x value, the source
    never hashed / hashed before / a frozenmapping copy of a hashed mapping"""
    from pharmpy.internals.immutable import frozenmapping

    fid = _fid(frozenmapping, 'replace')
    bases = [{}, {'a': 1}, {'a': 1, 'b': 2}, {'b': 2, 'a': 1}]
    if tier != 'quick':
        bases += [{'a': 1, 'b': 2, 'c': 3}, {1: 'a', 2: 'b'}]
    sources = ('never hashed', 'hashed before', 'copy of a hashed mapping')

    def one(d, k, v, how):
        src = frozenmapping(d)
        if how == 'hashed before':
            hash(src)
        elif how == 'copy of a hashed mapping':
            first = frozenmapping(d)
            hash(first)
            src = frozenmapping(first)
        new = src.replace(k, v)
        ref = dict(d)
        ref[k] = v
        direct = frozenmapping(ref)
        if dict(new) != ref or not _eq(new, direct) or not _eq(direct, new):
            return [(fid, C_FM_REPLACE, False, f'returned {new!r}, expected {ref!r}')]
        if hash(new) != hash(direct):
            return [(fid, C_FM_REPLACE, False, f'returned {new!r}, which equals frozenmapping({ref!r}) but has '
                     'another hash')]
        again = frozenmapping(d)
        if dict(src) != d or not _eq(src, again) or hash(src) != hash(again):
            return [(fid, C_FM_REPLACE, False, f'the source is now {src!r} (hash equal to that of a new '
                     f'frozenmapping({d!r}): {hash(src) == hash(again)})')]
        return [(fid, C_FM_REPLACE, True, '')]

    for d in bases:
        for k in list(d) + ['z']:
            for v in (1, 2, 'x'):
                for how in sources:
                    yield (f'frozenmapping({d!r}) [{how}].replace({k!r}, {v!r})',
                           (lambda d=d, k=k, v=v, how=how: one(d, k, v, how)))


# ------------------------------------------------------------------------------------------------
# specs: Parameter / Parameters
# ------------------------------------------------------------------------------------------------
def _wf_expect_error(fid, what, thunk, invariant=None):
    """thunk must raise ValueError/TypeError; if it returns, the invariant (if given) decides"""
    try:
        r = thunk()
    except (ValueError, TypeError):
        return [(fid, C_WF_INVALID, True, '')]
    except Exception as e:
        return [(fid, C_WF_INVALID, False, f'{what} raised undocumented ' + _exc(e))]
    return [(fid, C_WF_INVALID, False, f'{what} returned {_short(r, 80)} instead of raising ValueError/TypeError')]


def _parameter_entries(tier):
    from pharmpy.basic import Expr
    from pharmpy.model import Parameter

    base = dict(name='TH', init=0.5, lower=0.0, upper=1.0, fix=False)
    alts = [{'name': 'TH2'}, {'init': 0.25}, {'init': 0}, {'init': 1.0}, {'lower': None}, {'lower': -1},
            {'lower': 0.5}, {'upper': None}, {'upper': 2}, {'upper': 0.5}, {'fix': True},
            {'init': 0.5000000000000001}]
    sames = [{'init': Expr.float(0.5)}, {'lower': 0}, {'lower': -0.0}, {'upper': 1}, {'upper': Expr.integer(1)},
             {'fix': 0}]
    extra = [
        ('ctor', lambda: Parameter('TH', 0.5, 0.0, 1.0, False), 'base'),
        ('replace()', lambda: Parameter.create(**base).replace(), 'base'),
        ('replace(init)', lambda: Parameter.create('TH', 0.1, 0.0, 1.0).replace(init=0.5), 'base'),
        ('unbounded', lambda: Parameter.create('TH', 0.5), None),
        ('unbounded:ctor', lambda: Parameter('TH', 0.5), 'unbounded'),
        ('unbounded:inf', lambda: Parameter.create('TH', 0.5, lower=-float('inf'), upper=float('inf')), 'unbounded'),
    ]
    return _perturb(Parameter.create, base, alts, sames, extra)


def _ref_param_valid(lower, init, upper):
    lo = -math.inf if lower is None else lower
    hi = math.inf if upper is None else upper
    if math.isnan(init) or math.isnan(lo) or math.isnan(hi):
        return False
    return lo <= init <= hi


def _parameter_wf(tier):
    from pharmpy.model import Parameter, Parameters

    fid = _fid(Parameter, 'create')
    nan, inf = math.nan, math.inf
    inits = [0.5, 0.0, 1.0, -1.0, inf, -inf, nan]
    bounds = [None, 0.0, 0.5, 1.0, -1.0, -inf, inf, nan]
    if tier == 'thorough':
        inits = inits + [-0.5, 2.0, 1e-300]
        bounds = bounds + [-0.5, 2.0, 1e-300]

    def one(lower, init, upper):
        valid = _ref_param_valid(lower, init, upper)
        try:
            p = Parameter.create('P', init, lower=lower, upper=upper)
        except ValueError:
            return [(fid, C_WF_PARAM, not valid, 'raised ValueError for valid arguments')]
        except Exception as e:
            return [(fid, C_WF_PARAM, False, 'raised undocumented ' + _exc(e))]
        ok = valid and p.lower <= p.init <= p.upper and p.init == init
        return [(fid, C_WF_PARAM, ok, f'returned {p!r}' + ('' if valid else ' although the arguments are invalid'))]

    for lower, init, upper in itertools.product(bounds, inits, bounds):
        yield f'Parameter.create(P, init={init}, lower={lower}, upper={upper})', \
            (lambda lower=lower, init=init, upper=upper: one(lower, init, upper))

    # replace / set_initial_estimates on a bounded parameter
    fidr = _fid(Parameter, 'replace')
    fids = _fid(Parameters, 'set_initial_estimates')

    def repl(kw):
        base = dict(lower=0.0, init=0.5, upper=1.0)
        new = {**base, **kw}
        valid = _ref_param_valid(new['lower'], new['init'], new['upper'])
        try:
            p = Parameter.create('P', 0.5, lower=0.0, upper=1.0).replace(**kw)
        except ValueError:
            return [(fidr, C_WF_PARAM_REPL, not valid, 'raised ValueError for a valid change')]
        except Exception as e:
            return [(fidr, C_WF_PARAM_REPL, False, 'raised undocumented ' + _exc(e))]
        ok = valid and p.lower <= p.init <= p.upper
        return [(fidr, C_WF_PARAM_REPL, ok, f'returned {p!r}')]

    def setinit(v):
        valid = _ref_param_valid(0.0, v, 1.0)
        ps = Parameters.create([Parameter.create('P', 0.5, lower=0.0, upper=1.0), Parameter.create('Q', 1.0)])
        try:
            new = ps.set_initial_estimates({'P': v})
        except ValueError:
            return [(fids, C_WF_PARAM_REPL, not valid, 'raised ValueError for a valid change')]
        except Exception as e:
            return [(fids, C_WF_PARAM_REPL, False, 'raised undocumented ' + _exc(e))]
        p = new['P']
        ok = valid and p.lower <= p.init <= p.upper and p.init == v and ps['P'].init == 0.5
        return [(fids, C_WF_PARAM_REPL, ok, f'returned {p!r}')]

    for f in ('init', 'lower', 'upper'):
        for v in [-1.0, 0.0, 0.25, 0.5, 0.75, 1.0, 2.0, nan]:
            yield f'Parameter(P, 0.5, lower=0, upper=1).replace({f}={v})', (lambda f=f, v=v: repl({f: v}))
    for v in [-1.0, 0.0, 0.25, 1.0, 2.0, nan]:
        yield f'Parameters(P in [0,1], Q).set_initial_estimates(P={v})', (lambda v=v: setinit(v))
    for what, th in [('Parameter.create(name=1)', lambda: Parameter.create(1, 0.5)),
                     ('Parameter.create(name=None)', lambda: Parameter.create(None, 0.5)),
                     ('Parameter.create(init="a")', lambda: Parameter.create('P', 'a')),
                     ('Parameter.create(init=None)', lambda: Parameter.create('P', None))]:
        yield what, (lambda what=what, th=th: _wf_expect_error(fid, what, th))


def _params_alphabet():
    from pharmpy.model import Parameter

    return {'A': Parameter.create('A', 0.1), "A'": Parameter.create('A', 0.2), 'B': Parameter.create('B', 1.0, lower=0),
            'C': Parameter.create('C', 2.0, fix=True)}


def _parameters_entries(tier):
    from pharmpy.model import Parameters

    al = _params_alphabet()
    A, A2, B, C = al['A'], al["A'"], al['B'], al['C']
    base = dict(parameters=(A, B))
    def L(label, *ps):
        return {'parameters': ps, '_label': 'parameters=(' + label + ')'}

    alts = [{'parameters': ()}, L('A', A), L('B', B), L('B,A', B, A), L("A',B", A2, B), L('A,C', A, C),
            L('A,B,C', A, B, C), {'parameters': None}]
    sames = [{'parameters': [A, B], '_label': 'parameters=[A,B]'},
             {'parameters': Parameters((A, B)), '_label': 'parameters=Parameters object'}]
    extra = [
        ('ctor', lambda: Parameters((A, B)), 'base'),
        ('generator', lambda: Parameters.create(p for p in (A, B)), 'base'),
        ('A + B', lambda: Parameters.create((A,)) + B, 'base'),
        ('A + [B]', lambda: Parameters.create((A,)) + [B], 'base'),
        ('A + Parameters(B)', lambda: Parameters.create((A,)) + Parameters.create((B,)), 'base'),
        ('A radd', lambda: A + Parameters.create((B,)), 'base'),
        ('slice', lambda: Parameters.create((A, B, C))[0:2], 'base'),
        ('index list', lambda: Parameters.create((A, B, C))[['A', 'B']], 'base'),
        ('minus', lambda: Parameters.create((A, B, C)) - C, 'base'),
        ('set_initial_estimates', lambda: Parameters.create((A2, B)).set_initial_estimates({'A': 0.1}), 'base'),
        ('replace', lambda: Parameters.create((C,)).replace(parameters=[A, B]), 'base'),
        ('empty ctor', lambda: Parameters(), "parameters=()"),
    ]
    return _perturb(Parameters.create, base, alts, sames, extra)


def _names_unique_result(fid, clause, what, thunk, operand_names):
    """collection operation: either ValueError, or a result whose names are unique; must not raise when
    the operand names are unique"""
    dup = len(set(operand_names)) != len(operand_names)
    try:
        r = thunk()
    except ValueError:
        return [(fid, clause, dup, f'{what} raised ValueError although all names are distinct')]
    except Exception as e:
        return [(fid, clause, False, f'{what} raised undocumented ' + _exc(e))]
    names = list(r.names)
    ok = len(set(names)) == len(names) and not dup
    return [(fid, clause, ok, f'{what} returned a collection with names {names}')]


def _parameters_wf(tier):
    from pharmpy.model import Parameters

    al = _params_alphabet()
    keys = sorted(al)
    maxlen = 3 if tier == 'quick' else 4
    fidc = _fid(Parameters, 'create')
    for n in range(0, maxlen + 1):
        for seq in itertools.product(keys, repeat=n):
            ps = [al[k] for k in seq]
            names = [p.name for p in ps]
            for kind, ctor in (('tuple', tuple), ('list', list)):
                yield f'Parameters.create({kind} {list(seq)})', \
                    (lambda ps=ps, names=names, ctor=ctor, seq=seq: _names_unique_result(
                        fidc, C_WF_NAMES, f'Parameters.create({list(seq)})', lambda: Parameters.create(ctor(ps)), names))
    # operators
    uniq = [seq for n in range(0, 3) for seq in itertools.permutations(keys, n)
            if len({al[k].name for k in seq}) == len(seq)]
    for left in uniq:
        L = [al[k] for k in left]
        for right in uniq:
            R = [al[k] for k in right]
            names = [p.name for p in L + R]
            ops = [('__add__', 'Parameters', lambda L=L, R=R: Parameters.create(L) + Parameters.create(R)),
                   ('__add__', 'list', lambda L=L, R=R: Parameters.create(L) + list(R)),
                   ('__radd__', 'list', lambda L=L, R=R: list(L) + Parameters.create(R)),
                   ('replace', 'concat', lambda L=L, R=R: Parameters.create(L).replace(parameters=L + R))]
            if len(R) == 1:
                ops.append(('__add__', 'Parameter', lambda L=L, R=R: Parameters.create(L) + R[0]))
            if len(L) == 1:
                ops.append(('__radd__', 'Parameter', lambda L=L, R=R: L[0] + Parameters.create(R)))
            for meth, kind, th in ops:
                what = f'Parameters {list(left)} {meth}({kind}) {list(right)}'
                yield what, (lambda meth=meth, what=what, th=th, names=names: _names_unique_result(
                    _fid(Parameters, meth), C_WF_NAMES, what, th, names))
    # indexing with a list of names
    fidg = _fid(Parameters, '__getitem__')
    for idx in itertools.product(['A', 'B'], repeat=2):
        def th(idx=idx):
            try:
                r = Parameters.create((al['A'], al['B']))[list(idx)]
            except (KeyError, ValueError):
                return [(fidg, C_WF_NAMES_INDEX, True, '')]
            names = r.names
            return [(fidg, C_WF_NAMES_INDEX, len(set(names)) == len(names),
                     f'Parameters(A, B)[{list(idx)}] returned names {names}')]
        yield f'Parameters(A, B)[{list(idx)}]', th
    for what, th in [('Parameters.create([1])', lambda: Parameters.create([1])),
                     ('Parameters.create(["A"])', lambda: Parameters.create(['A'])),
                     ('Parameters.create(5)', lambda: Parameters.create(5)),
                     ('Parameters + 5', lambda: Parameters.create([al['A']]) + 5)]:
        yield what, (lambda what=what, th=th: _wf_expect_error(fidc, what, th))


# ------------------------------------------------------------------------------------------------
# specs: ColumnInfo / DataInfo
# ------------------------------------------------------------------------------------------------
def _columninfo_entries(tier):
    from pharmpy.basic import Unit
    from pharmpy.internals.immutable import frozenmapping
    from pharmpy.model import ColumnInfo

    base = dict(name='WGT', type='covariate', unit='kg', scale='ratio', continuous=True, categories=None,
                drop=False, datatype='float64', descriptor='body weight')
    alts = [{'name': 'AGE'}, {'type': 'dv'}, {'type': 'unknown'}, {'unit': None}, {'unit': 'mg'}, {'unit': 'kg/L'},
            {'scale': 'interval'}, {'scale': 'nominal', 'continuous': False}, {'scale': 'ordinal', 'continuous': None},
            {'continuous': False}, {'categories': ('1', '2')}, {'categories': ('2', '1')}, {'categories': (1, 2)},
            {'categories': {'1': 'male', '2': 'female'}}, {'categories': {'1': 'female', '2': 'male'}},
            {'categories': ()}, {'drop': True}, {'datatype': 'int32'}, {'datatype': 'nmtran-date'},
            {'descriptor': None}, {'descriptor': 'age'}]
    sames = [{'unit': 'kilogram'}, {'unit': Unit('kg')}, {'continuous': None}]
    cat = dict(base, categories={'1': 'male', '2': 'female'})
    catt = dict(base, categories=('1', '2'))
    extra = [
        ('replace()', lambda: ColumnInfo.create(**base).replace(), 'base'),
        ('replace(descriptor)', lambda: ColumnInfo.create(**dict(base, descriptor='age')).replace(
            descriptor='body weight'), 'base'),
        ('cat dict', lambda: ColumnInfo.create(**cat), None),
        ('cat dict:other order', lambda: ColumnInfo.create(**dict(base, categories={'2': 'female', '1': 'male'})),
         'cat dict'),
        ('cat dict:frozenmapping', lambda: ColumnInfo.create(**dict(base, categories=frozenmapping(
            {'1': 'male', '2': 'female'}))), 'cat dict'),
        ('cat tuple', lambda: ColumnInfo.create(**catt), None),
        ('cat tuple:list', lambda: ColumnInfo.create(**dict(base, categories=['1', '2'])), 'cat tuple'),
        ('defaults', lambda: ColumnInfo.create('WGT'), None),
        ('defaults:ctor', lambda: ColumnInfo('WGT', continuous=True), 'defaults'),
    ]
    return _perturb(ColumnInfo.create, base, alts, sames, extra)


def _columninfo_wf(tier):
    from pharmpy.model import ColumnInfo

    fid = _fid(ColumnInfo, 'create')
    bad = [('type', 'xyz'), ('type', None), ('scale', 'xyz'), ('scale', None), ('datatype', 'float'),
           ('datatype', None), ('descriptor', 'xyz'), ('name', 1), ('name', None), ('categories', 5)]
    for f, v in bad:
        what = f'ColumnInfo.create(WGT, {f}={v!r})'
        kw = {'name': 'WGT', f: v}
        yield what, (lambda what=what, kw=kw: _wf_expect_error(fid, what, lambda: ColumnInfo.create(**kw)))
    for scale in ('nominal', 'ordinal'):
        what = f'ColumnInfo.create(WGT, scale={scale}, continuous=True)'
        yield what, (lambda what=what, scale=scale: _wf_expect_error(
            fid, what, lambda: ColumnInfo.create('WGT', scale=scale, continuous=True)))
        what = f'ColumnInfo.create(WGT, scale={scale}).replace(continuous=True)'
        yield what, (lambda what=what, scale=scale: _wf_expect_error(
            _fid(ColumnInfo, 'replace'), what, lambda: ColumnInfo.create('WGT', scale=scale).replace(continuous=True)))


def _datainfo_entries(tier):
    from pathlib import Path

    from pharmpy.model import ColumnInfo, DataInfo

    cid = ColumnInfo.create('ID', type='id', scale='nominal', datatype='int32', descriptor='subject identifier')
    ctime = ColumnInfo.create('TIME', type='idv', unit='h')
    cdv = ColumnInfo.create('DV', type='dv', unit='mg/L', descriptor='plasma concentration')
    cdv2 = cdv.replace(descriptor=None)
    cdv3 = cdv.replace(unit='mg')
    csex = ColumnInfo.create('SEX', type='covariate', scale='nominal', categories={'1': 'male', '2': 'female'})
    base = dict(columns=(cid, ctime, cdv), path='/nonexistent/data.csv', separator=',', missing_data_token='-99')
    alts = [{'columns': ()}, {'columns': None}, {'columns': (cid,), '_label': 'columns=(ID)'},
            {'columns': (cid, ctime), '_label': 'columns=(ID,TIME)'},
            {'columns': (ctime, cid, cdv), '_label': 'columns=(TIME,ID,DV)'},
            {'columns': (cid, ctime, cdv2), '_label': 'columns=(ID,TIME,DV with descriptor=None)'},
            {'columns': (cid, ctime, cdv3), '_label': 'columns=(ID,TIME,DV with unit=mg)'},
            {'columns': (cid, ctime, cdv, csex), '_label': 'columns=(ID,TIME,DV,SEX)'},
            {'columns': ['ID', 'TIME', 'DV']}, {'columns': [cid, 'TIME', cdv], '_label': 'columns=[ID,"TIME",DV]'},
            {'path': None}, {'path': '/nonexistent/other.csv'}, {'separator': '\t'}, {'separator': r'\s+'},
            {'missing_data_token': '0'}, {'missing_data_token': None}]
    sames = [{'columns': [cid, ctime, cdv], '_label': 'columns=[ID,TIME,DV]'}, {'path': Path('/nonexistent/data.csv')},
             {'missing_data_token': -99}]
    extra = [
        ('ctor', lambda: DataInfo((cid, ctime, cdv), Path('/nonexistent/data.csv'), ',', '-99'), 'base'),
        ('replace()', lambda: DataInfo.create(**base).replace(), 'base'),
        ('add', lambda: DataInfo.create((cid, ctime), '/nonexistent/data.csv', missing_data_token='-99') + cdv, None),
        ('set_column', lambda: DataInfo.create(**dict(base, columns=(cid, ctime, cdv3))).set_column(cdv), 'base'),
        ('set_types', lambda: DataInfo.create(**base).set_types(['id', 'idv', 'dv']), None),
        ('names', lambda: DataInfo.create(['ID', 'TIME', 'DV']), None),
        ('names#2', lambda: DataInfo.create(('ID', 'TIME', 'DV')), 'names'),
        ('names:ColumnInfo', lambda: DataInfo.create([ColumnInfo.create(n) for n in ('ID', 'TIME', 'DV')]), 'names'),
        ('with categories', lambda: DataInfo.create([cid, csex]), None),
        ('empty ctor', lambda: DataInfo(), None),
    ]
    return _perturb(DataInfo.create, base, alts, sames, extra)


def _datainfo_wf(tier):
    from pharmpy.model import ColumnInfo, DataInfo

    fid = _fid(DataInfo, 'create')
    c = ColumnInfo.create('A')
    for what, th in [('DataInfo.create(columns=[1])', lambda: DataInfo.create([1])),
                     ('DataInfo.create(columns=5)', lambda: DataInfo.create(5)),
                     ('DataInfo.create(columns=[A, None])', lambda: DataInfo.create([c, None])),
                     ('DataInfo.create([A]).replace(columns=[1])', lambda: DataInfo.create([c]).replace(columns=[1])),
                     ('DataInfo.create([A]).set_types([id, dv])', lambda: DataInfo.create([c]).set_types(['id', 'dv'])),
                     ('DataInfo.create([A]).set_types(xyz)', lambda: DataInfo.create([c]).set_types('xyz'))]:
        yield what, (lambda what=what, th=th: _wf_expect_error(fid, what, th))


# ------------------------------------------------------------------------------------------------
# specs: Assignment, doses, Compartment, Output, CompartmentalSystem, Statements
# ------------------------------------------------------------------------------------------------
def _assignment_entries(tier):
    import sympy

    from pharmpy.basic import Expr
    from pharmpy.model import Assignment

    x = Expr.symbol('WGT')
    base = dict(symbol='CL', expression='THETA1*exp(ETA1)')
    alts = [{'symbol': 'V'}, {'expression': 'THETA1*exp(ETA2)'}, {'expression': 'THETA1 + exp(ETA1)'},
            {'expression': 0}, {'expression': 1}, {'expression': 1.5}, {'expression': 'CL'},
            {'expression': 'THETA1*WGT**2/70'}, {'expression': Expr.function('A_CENTRAL', 't') / Expr.symbol('S1')},
            {'expression': Expr.piecewise((x, x > 5), (Expr.integer(0), True))},
            {'expression': Expr.piecewise((Expr.piecewise((x, x > 5), (Expr.integer(1), True)), x > 2),
                                          (Expr.integer(0), True))},
            {'expression': Expr.symbol('THETA1') * Expr.symbol('ETA1').exp() + 0.1},
            {'symbol': Expr.function('A_CENTRAL', 't')}]
    sames = [{'symbol': Expr.symbol('CL')}, {'symbol': sympy.Symbol('CL')}, {'expression': 'exp(ETA1)*THETA1'},
             {'expression': Expr.symbol('THETA1') * Expr.symbol('ETA1').exp()},
             {'expression': sympy.Symbol('THETA1') * sympy.exp(sympy.Symbol('ETA1'))}]
    extra = [
        ('ctor', lambda: Assignment(Expr.symbol('CL'), Expr('THETA1*exp(ETA1)')), 'base'),
        ('replace', lambda: Assignment.create('CL', 'THETA1').replace(expression='THETA1*exp(ETA1)'), 'base'),
        ('subs', lambda: Assignment.create('CL', 'THETA2*exp(ETA1)').subs({Expr.symbol('THETA2'): Expr.symbol('THETA1')}),
         'base'),
    ]
    return _perturb(Assignment.create, base, alts, sames, extra)


def _assignment_wf(tier):
    from pharmpy.model import Assignment

    fid = _fid(Assignment, 'create')
    for what, th in [('Assignment.create("a+b", 1)', lambda: Assignment.create('a+b', 1)),
                     ('Assignment.create(1, "x")', lambda: Assignment.create(1, 'x')),
                     ('Assignment.create("a", None)', lambda: Assignment.create('a', None)),
                     ('Assignment.create("a", [1])', lambda: Assignment.create('a', object()))]:
        yield what, (lambda what=what, th=th: _wf_expect_error(fid, what, th))


def _bolus_entries(tier):
    from pharmpy.basic import Expr
    from pharmpy.model import Bolus

    base = dict(amount='AMT', admid=1)
    alts = [{'amount': 'DOSE'}, {'amount': 100}, {'amount': 'AMT*F1'}, {'amount': 100.5}, {'admid': 2}]
    sames = [{'amount': Expr.symbol('AMT')}]
    extra = [('ctor', lambda: Bolus(Expr.symbol('AMT')), 'base'),
             ('default admid', lambda: Bolus.create('AMT'), 'base'),
             ('replace', lambda: Bolus.create('DOSE', admid=2).replace(amount='AMT', admid=1), 'base'),
             ('subs', lambda: Bolus.create('DOSE').subs({Expr.symbol('DOSE'): Expr.symbol('AMT')}), 'base')]
    return _perturb(Bolus.create, base, alts, sames, extra)


def _infusion_entries(tier):
    from pharmpy.basic import Expr
    from pharmpy.model import Infusion

    base = dict(amount='AMT', admid=1, rate='R1', duration=None)
    alts = [{'amount': 'DOSE'}, {'amount': 100}, {'admid': 2}, {'rate': 'R2'}, {'rate': 2},
            {'rate': None, 'duration': 'D1'}, {'rate': None, 'duration': 'R1'}, {'rate': None, 'duration': 2}]
    sames = [{'amount': Expr.symbol('AMT')}, {'rate': Expr.symbol('R1')}]
    extra = [('ctor', lambda: Infusion(Expr.symbol('AMT'), rate=Expr.symbol('R1')), 'base'),
             ('replace', lambda: Infusion.create('AMT', rate='R2').replace(rate='R1'), 'base'),
             ('duration', lambda: Infusion.create('AMT', duration='D1'), 'rate=None,duration=\'D1\''),
             ('duration:replace', lambda: Infusion.create('AMT', rate='R1').replace(rate=None, duration='D1'),
              'rate=None,duration=\'D1\'')]
    return _perturb(Infusion.create, base, alts, sames, extra)


def _infusion_wf(tier):
    from pharmpy.model import Infusion

    fid = _fid(Infusion, 'create')
    for what, th in [('Infusion.create(AMT)', lambda: Infusion.create('AMT')),
                     ('Infusion.create(AMT, rate=R1, duration=D1)', lambda: Infusion.create('AMT', rate='R1', duration='D1')),
                     ('Infusion.create(AMT, rate=R1).replace(duration=D1)',
                      lambda: Infusion.create('AMT', rate='R1').replace(duration='D1')),
                     ('Infusion.create(AMT, rate=R1).replace(rate=None)',
                      lambda: Infusion.create('AMT', rate='R1').replace(rate=None))]:
        yield what, (lambda what=what, th=th: _wf_expect_error(fid, what, th))


def _compartment_entries(tier):
    from pharmpy.basic import Expr
    from pharmpy.model import Bolus, Compartment, Infusion

    b1, b2 = Bolus.create('AMT'), Bolus.create('AMT', admid=2)
    inf = Infusion.create('AMT', admid=2, rate='R1')
    base = dict(name='CENTRAL', amount=None, doses=(b1,), input=0, lag_time=0, bioavailability=1)
    alts = [{'name': 'DEPOT'}, {'amount': 'A_C'}, {'amount': Expr.function('A_CENTRAL', 'TIME')},
            {'doses': ()}, {'doses': (b2,)}, {'doses': (inf,)}, {'doses': (b1, inf)}, {'doses': (inf, b1)},
            {'doses': (b1, b2)}, {'input': 'R0'}, {'input': 1}, {'lag_time': 'ALAG1'}, {'lag_time': 0.5},
            {'bioavailability': 'F1'}, {'bioavailability': 0.5}, {'bioavailability': 0}]
    sames = [{'amount': Expr.function('A_CENTRAL', 't')}, {'doses': [b1]}, {'doses': (Bolus.create('AMT'),)},
             {'input': Expr.integer(0)}, {'bioavailability': Expr.integer(1)}]
    extra = [('defaults', lambda: Compartment.create('CENTRAL', doses=(b1,)), 'base'),
             ('ctor', lambda: Compartment('CENTRAL', Expr.function('A_CENTRAL', 't'), (b1,)), 'base'),
             ('replace', lambda: Compartment.create('CENTRAL').replace(doses=(b1,)), 'base'),
             ('generator doses', lambda: Compartment.create('CENTRAL', doses=(d for d in (b1,))), 'base'),
             ('no dose', lambda: Compartment.create('CENTRAL'), 'doses=()')]
    return _perturb(Compartment.create, base, alts, sames, extra)


def _compartment_wf(tier):
    from pharmpy.model import Compartment

    fid = _fid(Compartment, 'create')
    for what, th in [('Compartment.create(1)', lambda: Compartment.create(1)),
                     ('Compartment.create(None)', lambda: Compartment.create(None)),
                     ('Compartment.create(C, doses=(1,))', lambda: Compartment.create('C', doses=(1,))),
                     ('Compartment.create(C, doses=5)', lambda: Compartment.create('C', doses=5)),
                     ('Compartment.create(C, doses=("AMT",))', lambda: Compartment.create('C', doses=('AMT',))),
                     ('Compartment.create(C, input=None)', lambda: Compartment.create('C', input=None))]:
        yield what, (lambda what=what, th=th: _wf_expect_error(fid, what, th))


def _output_entries(tier):
    from pharmpy.model import output
    from pharmpy.model.statements import Output

    return [Entry('output', lambda: output), Entry('Output()', lambda: Output(), same_as='output'),
            Entry('from_dict', lambda: Output.from_dict({'class': 'Output'}), same_as='output')]


def _cs_build(comp_order, flow_order, t='t', kind='base', direct=False, implicit=False):
    """Build a compartmental system from a catalogue; comp_order / flow_order are the insertion orders"""
    from pharmpy.basic import Expr
    from pharmpy.model import Bolus, Compartment, CompartmentalSystem, CompartmentalSystemBuilder, output

    dose = Bolus.create('AMT')
    comps = {
        'D': Compartment.create('DEPOT', doses=(dose,) if kind != 'dose central' else ()),
        'C': Compartment.create('CENTRAL', doses=(dose,) if kind == 'dose central' else ()),
        'P': Compartment.create('PERIPHERAL'),
        'A': Compartment.create('AUC', input=Expr.function('A_CENTRAL', 't') / Expr.symbol('V1')),
        'O': output,
    }
    rates = {('D', 'C'): 'KA', ('C', 'P'): 'Q/V1', ('P', 'C'): 'Q/V2', ('C', 'O'): 'CL/V1'}
    if kind == 'rate':
        rates[('C', 'O')] = 'CL/V2'
    if kind == 'swapped rates':
        rates[('C', 'P')], rates[('P', 'C')] = rates[('P', 'C')], rates[('C', 'P')]
    cb = CompartmentalSystemBuilder()
    if not implicit:
        for c in comp_order:
            cb.add_compartment(comps[c])
    for f in flow_order:
        src, dst = f[0], f[1]
        if src in comp_order and (dst in comp_order or dst == 'O'):
            cb.add_flow(comps[src], comps[dst], rates[(src, dst)])
    if direct:
        return CompartmentalSystem(cb, Expr.symbol(t) if isinstance(t, str) else t)
    if t == 't':
        return CompartmentalSystem.create(cb)
    return CompartmentalSystem.create(cb, t=t)


_CS_FLOWS = ('DC', 'CP', 'PC', 'CO')


def _cs_entries(tier):
    from pharmpy.basic import Expr
    from pharmpy.model import CompartmentalSystem, CompartmentalSystemBuilder

    comp_orders = [''.join(p) for p in itertools.permutations('DCP')]
    if tier == 'quick':
        flow_orders = [_CS_FLOWS[k:] + _CS_FLOWS[:k] for k in range(4)] + [tuple(reversed(_CS_FLOWS))]
    else:
        flow_orders = list(itertools.permutations(_CS_FLOWS))
    ents = [Entry('base', lambda: _cs_build('DCP', _CS_FLOWS)),
            Entry('base#2', lambda: _cs_build('DCP', _CS_FLOWS), same_as='base')]
    for co in comp_orders:
        for fo in flow_orders:
            if co == 'DCP' and tuple(fo) == _CS_FLOWS:
                continue
            ents.append(Entry(f'same:comps {co} flows {",".join(fo)}', (lambda co=co, fo=fo: _cs_build(co, fo)),
                              same_as='base'))
    ents += [
        Entry('same:flows first (implicit nodes)', lambda: _cs_build('DCP', _CS_FLOWS, implicit=True), same_as='base'),
        Entry('same:ctor', lambda: _cs_build('DCP', _CS_FLOWS, direct=True), same_as='base'),
        Entry('same:replace()', lambda: _cs_build('DCP', _CS_FLOWS).replace(), same_as='base'),
        Entry('same:builder from system', lambda: CompartmentalSystem.create(
            CompartmentalSystemBuilder(_cs_build('DCP', _CS_FLOWS))), same_as='base'),
        Entry('same:t Expr', lambda: _cs_build('DCP', _CS_FLOWS, t=Expr.symbol('t')), same_as='base'),
        Entry('t=TIME', lambda: _cs_build('DCP', _CS_FLOWS, t=Expr.symbol('TIME'))),
        Entry('t=TIME (str)', lambda: _cs_build('DCP', _CS_FLOWS, t='TIME'), same_as='t=TIME'),
        Entry('builder:2 comps', lambda: _cs_build('DC', _CS_FLOWS)),
        Entry('builder:2 comps other order', lambda: _cs_build('CD', tuple(reversed(_CS_FLOWS))),
              same_as='builder:2 comps'),
        Entry('builder:1 comp', lambda: _cs_build('C', _CS_FLOWS, kind='dose central')),
        Entry('builder:no output flow', lambda: _cs_build('DCP', ('DC', 'CP', 'PC'))),
        Entry('builder:no back flow', lambda: _cs_build('DCP', ('DC', 'CP', 'CO'))),
        Entry('builder:other rate', lambda: _cs_build('DCP', _CS_FLOWS, kind='rate')),
        Entry('builder:swapped rates', lambda: _cs_build('DCP', _CS_FLOWS, kind='swapped rates')),
        Entry('builder:dose in central', lambda: _cs_build('DCP', _CS_FLOWS, kind='dose central')),
        Entry('builder:dose in central other order', lambda: _cs_build('PCD', tuple(reversed(_CS_FLOWS)),
                                                                      kind='dose central'),
              same_as='builder:dose in central'),
        Entry('builder:empty', lambda: CompartmentalSystem.create(CompartmentalSystemBuilder())),
    ]
    # every subset of the flows that keeps the output flow (compartments that lose all their flows stay in the
    # system as isolated nodes), without and with an accumulation compartment that takes part in no flow at all
    present = {e.label for e in ents}
    for k in range(0, 4):
        for sub in itertools.combinations(_CS_FLOWS[:3], k):
            flows = sub + ('CO',)
            for comps in ('DCP', 'DCPA'):
                if comps == 'DCP' and (flows == _CS_FLOWS or flows == ('DC', 'CP', 'CO')):
                    continue  # 'base' and 'builder:no back flow'
                label = f'builder:comps {comps} flows {",".join(flows)}'
                assert label not in present
                ents.append(Entry(label, (lambda comps=comps, flows=flows: _cs_build(comps, flows))))
    ents += [
        Entry('builder:comps DCPA flows DC,CP,PC,CO other order',
              lambda: _cs_build('APCD', tuple(reversed(_CS_FLOWS))), same_as='builder:comps DCPA flows DC,CP,PC,CO'),
        Entry('builder:comps DCP flows CO other order', lambda: _cs_build('PCD', ('CO',)),
              same_as='builder:comps DCP flows CO'),
    ]
    return ents


def _cs_wf(tier):
    from pharmpy.model import CompartmentalSystem, CompartmentalSystemBuilder

    fid = _fid(CompartmentalSystem, 'create')
    for what, th in [('CompartmentalSystem.create(None)', lambda: CompartmentalSystem.create(None)),
                     ('CompartmentalSystem.create(5)', lambda: CompartmentalSystem.create(5)),
                     ('CompartmentalSystem.create(cb, t=None)',
                      lambda: CompartmentalSystem.create(CompartmentalSystemBuilder(), t=None)),
                     ('CompartmentalSystem.create(cb, t=5)',
                      lambda: CompartmentalSystem.create(CompartmentalSystemBuilder(), t=5))]:
        yield what, (lambda what=what, th=th: _wf_expect_error(fid, what, th))


def _statements_entries(tier):
    from pharmpy.model import Assignment, Statements

    a1 = Assignment.create('CL', 'THETA1*exp(ETA1)')
    a2 = Assignment.create('V1', 'THETA2')
    a2b = Assignment.create('V1', 'THETA2*WGT')
    a3 = Assignment.create('F', 'A_CENTRAL(t)/V1')
    a4 = Assignment.create('Y', 'F + EPS1')
    cs = _cs_build('DCP', _CS_FLOWS)
    cs_other_order = _cs_build('PCD', tuple(reversed(_CS_FLOWS)))
    cs_diff = _cs_build('DCP', _CS_FLOWS, kind='rate')
    base = dict(statements=(a1, a2, cs, a3, a4))
    def L(label, *stats):
        return {'statements': stats, '_label': 'statements=(' + label + ')'}

    alts = [{'statements': ()}, {'statements': None}, L('CL', a1), L('ODE', cs), L('V1,CL,ODE,F,Y', a2, a1, cs, a3, a4),
            L('CL,V1 changed,ODE,F,Y', a1, a2b, cs, a3, a4), L('CL,V1,ODE other rate,F,Y', a1, a2, cs_diff, a3, a4),
            L('CL,V1,F,Y', a1, a2, a3, a4), L('CL,V1,ODE,F', a1, a2, cs, a3), L('CL,V1,ODE,F,Y,Y', a1, a2, cs, a3, a4, a4)]
    sames = [{'statements': [a1, a2, cs, a3, a4], '_label': 'list'},
             {'statements': Statements((a1, a2, cs, a3, a4)), '_label': 'Statements object'},
             L('CL,V1,ODE built in another order,F,Y', a1, a2, cs_other_order, a3, a4),
             L('CL,V1,ODE.replace(),F,Y', a1, a2, cs.replace(), a3, a4),
             L('CL commuted,V1,ODE,F,Y', Assignment.create('CL', 'exp(ETA1)*THETA1'), a2, cs, a3, a4)]
    extra = [
        ('ctor list', lambda: Statements([a1, a2, cs, a3, a4]), 'base'),
        ('generator', lambda: Statements.create(s for s in (a1, a2, cs, a3, a4)), 'base'),
        ('add', lambda: Statements.create((a1, a2)) + cs + [a3] + Statements((a4,)), 'base'),
        ('radd', lambda: a1 + Statements.create((a2, cs, a3, a4)), 'base'),
        ('slice', lambda: Statements.create((a1, a2, cs, a3, a4, a4))[0:5], 'base'),
        ('reassign', lambda: Statements.create((a1, a2b, cs, a3, a4)).reassign('V1', 'THETA2'), 'base'),
        ('before+ode+after', lambda: (lambda s: s.before_odes + s.ode_system + s.after_odes)(
            Statements.create((a1, a2, cs, a3, a4))), 'base'),
        ('empty ctor', lambda: Statements(), 'statements=()'),
        ('ODE with an accumulation compartment outside every flow',
         lambda: Statements.create((a1, a2, _cs_build('DCPA', _CS_FLOWS), a3, a4)), None),
        ('ODE with an accumulation compartment outside every flow:built in another order',
         lambda: Statements.create((a1, a2, _cs_build('APCD', tuple(reversed(_CS_FLOWS))), a3, a4)),
         'ODE with an accumulation compartment outside every flow'),
        ('ODE with a peripheral compartment outside every flow',
         lambda: Statements.create((a1, a2, _cs_build('DCP', ('DC', 'CO')), a3, a4)), None),
    ]
    return _perturb(Statements.create, base, alts, sames, extra)


def _statements_wf(tier):
    from pharmpy.model import Assignment, Statements

    fid = _fid(Statements, 'create')
    a = Assignment.create('A', 1)
    for what, th in [('Statements.create([1])', lambda: Statements.create([1])),
                     ('Statements.create(5)', lambda: Statements.create(5)),
                     ('Statements.create([A, None])', lambda: Statements.create([a, None])),
                     ('Statements.create(["A=1"])', lambda: Statements.create(['A=1'])),
                     ('Statements([A]) + [1]', lambda: Statements.create([a]) + [1])]:
        yield what, (lambda what=what, th=th: _wf_expect_error(fid, what, th))


# ------------------------------------------------------------------------------------------------
# specs: variability levels, distributions, RandomVariables
# ------------------------------------------------------------------------------------------------
def _varlevel_entries(tier):
    from pharmpy.model import VariabilityLevel

    base = dict(name='IIV', reference=True, group='ID')
    alts = [{'name': 'IOV'}, {'reference': False}, {'group': None}, {'group': 'OCC'}]
    sames = [{'reference': 1}]
    extra = [('ctor', lambda: VariabilityLevel('IIV', True, 'ID'), 'base'),
             ('replace', lambda: VariabilityLevel.create('IOV', True, 'ID').replace(name='IIV'), 'base'),
             ('defaults', lambda: VariabilityLevel.create('IIV'), None),
             ('defaults:ctor', lambda: VariabilityLevel('IIV'), 'defaults')]
    return _perturb(VariabilityLevel.create, base, alts, sames, extra)


def _levels():
    from pharmpy.model import VariabilityLevel

    return {'R': VariabilityLevel.create('IIV', reference=True, group='ID'),
            'r': VariabilityLevel.create('IIV', reference=False, group='ID'),
            'O': VariabilityLevel.create('IOV', reference=False, group='OCC'),
            'o': VariabilityLevel.create('IOV', reference=True, group='OCC'),
            'C': VariabilityLevel.create('CENTER', reference=False, group='CENTER')}


def _varhier_entries(tier):
    from pharmpy.model import VariabilityHierarchy

    lv = _levels()
    R, r, O, o, C = lv['R'], lv['r'], lv['O'], lv['o'], lv['C']
    base = dict(levels=(R, O))
    def L(label, *levels):
        return {'levels': levels, '_label': 'levels=(' + label + ')'}

    alts = [L('IIV*', R), L('IOV,IIV*', O, R), L('IIV,IOV*', r, o), L('CENTER,IIV*,IOV', C, R, O), L('IIV*,CENTER', R, C),
            {'levels': None}]
    sames = [{'levels': [R, O], '_label': 'levels=[IIV*,IOV]'},
             {'levels': VariabilityHierarchy((R, O)), '_label': 'levels=VariabilityHierarchy'}]
    extra = [('ctor', lambda: VariabilityHierarchy((R, O)), 'base'),
             ('add', lambda: VariabilityHierarchy.create((R,)) + O, 'base'),
             ('radd', lambda: R + VariabilityHierarchy((O,)), 'base'),
             ('index', lambda: VariabilityHierarchy.create((C, R, O))[['IIV', 'IOV']], 'base'),
             ('replace', lambda: VariabilityHierarchy.create((R,)).replace(levels=(R, O)), 'base'),
             ('empty ctor', lambda: VariabilityHierarchy(), 'levels=None')]
    return _perturb(VariabilityHierarchy.create, base, alts, sames, extra)


def _varhier_wf(tier):
    from pharmpy.model import VariabilityHierarchy

    lv = _levels()
    fid = _fid(VariabilityHierarchy, 'create')
    clause = 'VariabilityHierarchy.create returns iff exactly one level is the reference, else ValueError'
    keys = sorted(lv)
    maxlen = 3 if tier == 'quick' else 4
    for n in range(1, maxlen + 1):
        for seq in itertools.product(keys, repeat=n):
            def th(seq=seq):
                levels = [lv[k] for k in seq]
                nref = sum(1 for lev in levels if lev.reference)
                try:
                    h = VariabilityHierarchy.create(levels)
                except ValueError:
                    return [(fid, clause, nref != 1, 'raised ValueError although exactly one level is the reference')]
                except Exception as e:
                    return [(fid, clause, False, 'raised undocumented ' + _exc(e))]
                return [(fid, clause, nref == 1, f'returned a hierarchy with {nref} reference levels: {h.names}')]
            yield f'VariabilityHierarchy.create({list(seq)})', th
    for what, th in [('VariabilityHierarchy.create([1])', lambda: VariabilityHierarchy.create([1])),
                     ('VariabilityHierarchy.create(["IIV"])', lambda: VariabilityHierarchy.create(['IIV'])),
                     ('VariabilityHierarchy + 1', lambda: VariabilityHierarchy.create([lv['R']]) + 1),
                     ('VariabilityHierarchy + second reference',
                      lambda: VariabilityHierarchy.create([lv['R']]) + lv['o'])]:
        yield what, (lambda what=what, th=th: _wf_expect_error(fid, what, th))


def _normal_entries(tier):
    from pharmpy.basic import Expr
    from pharmpy.model import NormalDistribution

    base = dict(name='ETA1', level='IIV', mean=0, variance='OMEGA11')
    alts = [{'name': 'ETA2'}, {'level': 'IOV'}, {'level': 'RUV'}, {'mean': 1}, {'mean': 'MU1'}, {'mean': 0.5},
            {'variance': 'OMEGA22'}, {'variance': 1}, {'variance': 0.09}, {'variance': 0},
            {'variance': 'OMEGA11**2'}]
    sames = [{'level': 'iiv'}, {'mean': Expr.integer(0)}, {'variance': Expr.symbol('OMEGA11')}]
    extra = [('ctor', lambda: NormalDistribution('ETA1', 'IIV', Expr.integer(0), Expr.symbol('OMEGA11')), 'base'),
             ('replace', lambda: NormalDistribution.create('ETA2', 'iiv', 0, 'OMEGA11').replace(name='ETA1'), 'base'),
             ('subs', lambda: NormalDistribution.create('ETA1', 'iiv', 0, 'OM').subs({'OM': 'OMEGA11'}), 'base')]
    return _perturb(NormalDistribution.create, base, alts, sames, extra)


def _normal_wf(tier):
    from pharmpy.model import NormalDistribution

    fid = _fid(NormalDistribution, 'create')
    for what, th in [('NormalDistribution.create(ETA, iiv, 0, -1)', lambda: NormalDistribution.create('ETA', 'iiv', 0, -1)),
                     ('NormalDistribution.create(ETA, iiv, 0, -0.5)',
                      lambda: NormalDistribution.create('ETA', 'iiv', 0, -0.5)),
                     ('NormalDistribution.create(ETA, iiv, 0, 1).replace(variance=-1)',
                      lambda: NormalDistribution.create('ETA', 'iiv', 0, 1).replace(variance=-1)),
                     ('NormalDistribution.create(ETA, iiv, 0, None)',
                      lambda: NormalDistribution.create('ETA', 'iiv', 0, None))]:
        yield what, (lambda what=what, th=th: _wf_expect_error(fid, what, th))


def _joint_entries(tier):
    import sympy

    from pharmpy.basic import Matrix
    from pharmpy.model import JointNormalDistribution

    var = [['OMEGA11', 'OMEGA21'], ['OMEGA21', 'OMEGA22']]
    base = dict(names=('ETA1', 'ETA2'), level='IIV', mean=[0, 0], variance=var)
    alts = [{'names': ('ETA1', 'ETA3')}, {'names': ('ETA2', 'ETA1')}, {'level': 'IOV'}, {'mean': [0, 1]},
            {'mean': ['MU1', 'MU2']}, {'variance': [['OMEGA11', 0], [0, 'OMEGA22']]},
            {'variance': [['OMEGA22', 'OMEGA21'], ['OMEGA21', 'OMEGA11']]},
            {'variance': [[1, 0.1], [0.1, 1]]}, {'variance': [[1, 0], [0, 1]]},
            {'names': ('ETA1', 'ETA2', 'ETA3'), 'mean': [0, 0, 0],
             'variance': [['OMEGA11', 'OMEGA21', 'OMEGA31'], ['OMEGA21', 'OMEGA22', 'OMEGA32'],
                          ['OMEGA31', 'OMEGA32', 'OMEGA33']]}]
    sames = [{'names': ['ETA1', 'ETA2']}, {'level': 'iiv'}, {'mean': (0, 0)}, {'mean': Matrix([0, 0])},
             {'variance': Matrix(var)}, {'variance': sympy.Matrix(var)}, {'variance': tuple(tuple(r) for r in var)}]
    extra = [('ctor', lambda: JointNormalDistribution(('ETA1', 'ETA2'), 'IIV', Matrix([0, 0]), Matrix(var)), 'base'),
             ('replace', lambda: JointNormalDistribution.create(['ETA1', 'ETA3'], 'iiv', [0, 0], var).replace(
                 names=['ETA1', 'ETA2']), 'base'),
             ('subs', lambda: JointNormalDistribution.create(['ETA1', 'ETA2'], 'iiv', [0, 0],
                                                             [['OM', 'OMEGA21'], ['OMEGA21', 'OMEGA22']]).subs(
                 {'OM': 'OMEGA11'}), 'base')]
    return _perturb(JointNormalDistribution.create, base, alts, sames, extra)


def _joint_wf(tier):
    from pharmpy.model import JointNormalDistribution

    fid = _fid(JointNormalDistribution, 'create')
    for what, th in [('JointNormalDistribution.create([E1,E2], iiv, [0,0], [[1,2],[2,1]])',
                      lambda: JointNormalDistribution.create(['E1', 'E2'], 'iiv', [0, 0], [[1, 2], [2, 1]])),
                     ('JointNormalDistribution.create([E1,E2], iiv, [0,0], [[-1,0],[0,1]])',
                      lambda: JointNormalDistribution.create(['E1', 'E2'], 'iiv', [0, 0], [[-1, 0], [0, 1]])),
                     ('JointNormalDistribution.create([E1,E2], iiv, [0,0], None)',
                      lambda: JointNormalDistribution.create(['E1', 'E2'], 'iiv', [0, 0], None))]:
        yield what, (lambda what=what, th=th: _wf_expect_error(fid, what, th))

    def dup():
        try:
            d = JointNormalDistribution.create(['E1', 'E1'], 'iiv', [0, 0], [['A', 'B'], ['B', 'C']])
        except ValueError:
            return [(fid, C_WF_NAMES, True, '')]
        except Exception as e:
            return [(fid, C_WF_NAMES, False, 'raised undocumented ' + _exc(e))]
        return [(fid, C_WF_NAMES, len(set(d.names)) == len(d.names), f'returned a distribution with names {d.names}')]

    yield 'JointNormalDistribution.create([E1, E1], ...)', dup


def _dist_alphabet():
    from pharmpy.model import JointNormalDistribution, NormalDistribution

    return {
        'N1': NormalDistribution.create('ETA1', 'iiv', 0, 'OM1'),
        "N1'": NormalDistribution.create('ETA1', 'iiv', 0, 'OM1B'),
        'N2': NormalDistribution.create('ETA2', 'iiv', 0, 'OM2'),
        'J12': JointNormalDistribution.create(['ETA1', 'ETA2'], 'iiv', [0, 0], [['OM1', 'OM21'], ['OM21', 'OM2']]),
        'J23': JointNormalDistribution.create(['ETA2', 'ETA3'], 'iiv', [0, 0], [['OM2', 'OM32'], ['OM32', 'OM3']]),
        'E': NormalDistribution.create('EPS1', 'ruv', 0, 'SI1'),
    }


def _rvs_entries(tier):
    from pharmpy.model import RandomVariables, VariabilityHierarchy, VariabilityLevel

    al = _dist_alphabet()
    N1, N1b, N2, J12, J23, E = (al[k] for k in ('N1', "N1'", 'N2', 'J12', 'J23', 'E'))
    dflt_eta = VariabilityHierarchy.create([VariabilityLevel.create('IIV', True, 'ID'),
                                            VariabilityLevel.create('IOV', False, 'OCC')])
    dflt_eps = VariabilityHierarchy.create([VariabilityLevel.create('RUV', True)])
    other_eta = VariabilityHierarchy.create([VariabilityLevel.create('IIV', True, 'ID')])
    other_eps = VariabilityHierarchy.create([VariabilityLevel.create('RUV', True, 'ID')])
    base = dict(dists=(N1, J23, E), eta_levels=None, epsilon_levels=None)
    def L(label, *dists):
        return {'dists': dists, '_label': 'dists=(' + label + ')'}

    alts = [{'dists': ()}, {'dists': None}, L('J23,N1,E', J23, N1, E), L("N1',J23,E", N1b, J23, E), L('N1,J23', N1, J23),
            L('J12,E', J12, E), L('N1,N2,E', N1, N2, E), {'eta_levels': other_eta, '_label': 'eta_levels=(IIV)'},
            {'epsilon_levels': other_eps, '_label': 'epsilon_levels=(RUV grouped by ID)'}]
    sames = [{'dists': [N1, J23, E], '_label': 'dists=[N1,J23,E]'},
             {'eta_levels': dflt_eta, '_label': 'eta_levels=explicit default'},
             {'epsilon_levels': dflt_eps, '_label': 'epsilon_levels=explicit default'}]
    extra = [('ctor', lambda: RandomVariables((N1, J23, E), dflt_eta, dflt_eps), 'base'),
             ('add', lambda: RandomVariables.create((N1,)) + J23 + E, 'base'),
             ('add list', lambda: RandomVariables.create((N1,)) + [J23, E], 'base'),
             ('add rvs', lambda: RandomVariables.create((N1,)) + RandomVariables.create((J23, E)), 'base'),
             ('radd', lambda: N1 + RandomVariables.create((J23, E)), 'base'),
             ('slice', lambda: RandomVariables.create((N1, J23, E))[0:3], 'base'),
             ('replace', lambda: RandomVariables.create((N1,)).replace(dists=(N1, J23, E)), 'base'),
             ('one dist', lambda: RandomVariables.create((N1,)), None),
             ('one dist:bare', lambda: RandomVariables.create(N1), 'one dist'),
             ('unjoin', lambda: RandomVariables.create((J12, E)).unjoin('ETA1'), None),
             ('etas', lambda: RandomVariables.create((N1, J23, E)).etas, None),
             ('etas#2', lambda: RandomVariables.create((N1, J23)), 'etas')]
    return _perturb(RandomVariables.create, base, alts, sames, extra)


def _rvs_wf(tier):
    from pharmpy.model import RandomVariables

    al = _dist_alphabet()
    keys = ['N1', "N1'", 'N2', 'J12', 'J23']
    fidc = _fid(RandomVariables, 'create')
    maxlen = 3 if tier == 'quick' else 4

    def names_of(seq):
        return [n for k in seq for n in al[k].names]

    for n in range(0, maxlen + 1):
        for seq in itertools.product(keys, repeat=n):
            ds = [al[k] for k in seq]
            for kind, ctor in (('tuple', tuple), ('list', list)):
                what = f'RandomVariables.create({kind} {list(seq)})'
                yield what, (lambda ds=ds, seq=seq, ctor=ctor, what=what: _names_unique_result(
                    fidc, C_WF_NAMES, what, lambda: RandomVariables.create(ctor(ds)), names_of(seq)))
    uniq = [seq for n in range(0, 3) for seq in itertools.permutations(keys, n)
            if len(set(names_of(seq))) == len(names_of(seq))]
    for left in uniq:
        L = [al[k] for k in left]
        for right in uniq:
            R = [al[k] for k in right]
            names = names_of(left) + names_of(right)
            ops = [('__add__', 'RandomVariables', lambda L=L, R=R: RandomVariables.create(L) + RandomVariables.create(R)),
                   ('__add__', 'list', lambda L=L, R=R: RandomVariables.create(L) + list(R)),
                   ('__radd__', 'list', lambda L=L, R=R: list(L) + RandomVariables.create(R)),
                   ('replace', 'concat', lambda L=L, R=R: RandomVariables.create(L).replace(dists=L + R))]
            if len(R) == 1:
                ops.append(('__add__', 'Distribution', lambda L=L, R=R: RandomVariables.create(L) + R[0]))
            if len(L) == 1:
                ops.append(('__radd__', 'Distribution', lambda L=L, R=R: L[0] + RandomVariables.create(R)))
            for meth, kind, th in ops:
                what = f'RandomVariables {list(left)} {meth}({kind}) {list(right)}'
                yield what, (lambda meth=meth, what=what, th=th, names=names: _names_unique_result(
                    _fid(RandomVariables, meth), C_WF_NAMES, what, th, names))

    def single_dup():
        from pharmpy.model import JointNormalDistribution

        try:
            d = JointNormalDistribution.create(('E1', 'E1'), 'IIV', [0, 0], [['A', 'B'], ['B', 'C']])
        except ValueError:
            return [(fidc, C_WF_NAMES, True, '')]
        return _names_unique_result(fidc, C_WF_NAMES, 'RandomVariables.create(Joint(E1, E1))',
                                    lambda: RandomVariables.create(d), ['E1', 'E1'])

    yield 'RandomVariables.create(single joint distribution with names (E1, E1))', single_dup
    for what, th in [('RandomVariables.create([1])', lambda: RandomVariables.create([1])),
                     ('RandomVariables.create(5)', lambda: RandomVariables.create(5)),
                     ('RandomVariables.create([], eta_levels=5)', lambda: RandomVariables.create([], eta_levels=5)),
                     ('RandomVariables.create([], epsilon_levels="RUV")',
                      lambda: RandomVariables.create([], epsilon_levels='RUV')),
                     ('RandomVariables + 5', lambda: RandomVariables.create([]) + 5),
                     ('RandomVariables + dist of unknown level',
                      lambda: RandomVariables.create([]) + al['N1'].replace(level='XYZ'))]:
        yield what, (lambda what=what, th=th: _wf_expect_error(fidc, what, th))


# ------------------------------------------------------------------------------------------------
# specs: execution steps
# ------------------------------------------------------------------------------------------------
def _execstep_entries(tier):
    from pharmpy.internals.immutable import frozenmapping
    from pharmpy.model.execution_steps import ExecutionStep

    def mk(**kw):
        kw = dict(kw)
        kw['tool_options'] = frozenmapping(kw['tool_options'])
        return ExecutionStep(**kw)

    base = dict(solver='LSODA', solver_rtol=3, solver_atol=4, tool_options={'A': 1, 'B': 2})
    alts = [{'solver': None}, {'solver': 'CVODES'}, {'solver_rtol': None}, {'solver_rtol': 5}, {'solver_atol': 5},
            {'tool_options': {}}, {'tool_options': {'A': 1, 'B': 3}}, {'tool_options': {'A': 1}}]
    sames = [{'tool_options': {'B': 2, 'A': 1}}]
    return _perturb(mk, base, alts, sames, [('defaults', lambda: ExecutionStep(), None),
                                            ('defaults#2', lambda: ExecutionStep(), 'defaults')])


def _eststep_entries(tier):
    from pharmpy.basic import Expr
    from pharmpy.model import EstimationStep

    e1, e2, eps = Expr.symbol('ETA1'), Expr.symbol('ETA2'), Expr.symbol('EPS1')
    base = dict(method='FOCE', interaction=True, parameter_uncertainty_method='SANDWICH', evaluation=False,
                maximum_evaluations=9999, laplace=False, isample=None, niter=None, auto=None,
                keep_every_nth_iter=None, residuals=('CWRES', 'RES'), predictions=('IPRED', 'PRED'),
                solver=None, solver_rtol=None, solver_atol=None, tool_options={'SIGL': 9, 'NSIG': 3},
                derivatives=((e1,), (eps, e1)), individual_eta_samples=False)
    alts = [{'method': 'FO'}, {'method': 'IMP'}, {'interaction': False}, {'parameter_uncertainty_method': None},
            {'parameter_uncertainty_method': 'SMAT'}, {'evaluation': True}, {'maximum_evaluations': None},
            {'maximum_evaluations': 1}, {'laplace': True}, {'isample': 10}, {'niter': 5}, {'auto': True},
            {'auto': False}, {'keep_every_nth_iter': 2}, {'residuals': ()}, {'residuals': ('CWRES',)},
            {'predictions': ()}, {'predictions': ('PRED',)}, {'solver': 'LSODA'}, {'solver': 'CVODES'},
            {'solver_rtol': 3}, {'solver_atol': 4}, {'tool_options': {}}, {'tool_options': {'SIGL': 9}},
            {'tool_options': {'SIGL': 9, 'NSIG': 4}}, {'derivatives': ()}, {'derivatives': ((e1,),)},
            {'derivatives': ((e2,), (eps, e1))}, {'individual_eta_samples': True}]
    sames = [{'method': 'foce'}, {'parameter_uncertainty_method': 'sandwich'}, {'residuals': ['RES', 'CWRES']},
             {'predictions': ['PRED', 'IPRED']}, {'tool_options': {'NSIG': 3, 'SIGL': 9}},
             {'derivatives': [[e1, eps], [e1]]}, {'individual_eta_samples': 0}]
    extra = [
        ('replace()', lambda: EstimationStep.create(**base).replace(), 'base'),
        ('replace(method)', lambda: EstimationStep.create(**dict(base, method='FO')).replace(method='FOCE'), 'base'),
        ('solver', lambda: EstimationStep.create(**dict(base, solver='LSODA')), None),
        ('solver:lower case', lambda: EstimationStep.create(**dict(base, solver='lsoda')), 'solver'),
        ('defaults', lambda: EstimationStep.create('FOCE'), None),
        ('defaults:ctor', lambda: EstimationStep('FOCE'), 'defaults'),
        ('defaults:lists', lambda: EstimationStep.create('FOCE', residuals=[], predictions=[], tool_options={},
                                                         derivatives=[]), 'defaults'),
        ('tool options 3', lambda: EstimationStep.create('FOCE', tool_options={'A': 1, 'B': 2, 'C': 3}), None),
        ('tool options 3 rotated', lambda: EstimationStep.create('FOCE', tool_options={'C': 3, 'A': 1, 'B': 2}),
         'tool options 3'),
    ]
    return _perturb(EstimationStep.create, base, alts, sames, extra)


def _eststep_wf(tier):
    from pharmpy.model import EstimationStep

    fid = _fid(EstimationStep, 'create')
    bad = [('method', 'XYZ'), ('maximum_evaluations', 0), ('maximum_evaluations', -1),
           ('parameter_uncertainty_method', 'XYZ'), ('solver', 'XYZ'), ('residuals', 5), ('predictions', 5),
           ('derivatives', ((1,),)), ('derivatives', 5), ('derivatives', (('ETA1',),))]
    for f, v in bad:
        kw = {'method': 'FOCE', f: v}
        what = f'EstimationStep.create({kw})'
        yield what, (lambda what=what, kw=kw: _wf_expect_error(fid, what, lambda: EstimationStep.create(**kw)))
    for f, v in bad:
        what = f'EstimationStep.create(FOCE).replace({f}={v!r})'
        yield what, (lambda what=what, f=f, v=v: _wf_expect_error(
            _fid(EstimationStep, 'replace'), what, lambda: EstimationStep.create('FOCE').replace(**{f: v})))


def _simstep_entries(tier):
    from pharmpy.model import SimulationStep

    base = dict(n=2, seed=1234, solver=None, solver_rtol=None, solver_atol=None, tool_options={})
    alts = [{'n': 1}, {'n': 10}, {'seed': 1}, {'solver': 'LSODA'}, {'solver_rtol': 3}, {'solver_atol': 4},
            {'tool_options': {'A': 1}}, {'tool_options': {'A': 1, 'B': 2}}]
    sames = []
    extra = [('replace()', lambda: SimulationStep.create(**base).replace(), 'base'),
             ('replace(n)', lambda: SimulationStep.create(**dict(base, n=5)).replace(n=2), 'base'),
             ('defaults', lambda: SimulationStep.create(), None),
             ('defaults:ctor', lambda: SimulationStep(), 'defaults'),
             ('ctor solver', lambda: SimulationStep(n=2, seed=1234, solver='LSODA'), None),
             ('replace solver', lambda: SimulationStep.create(n=2, seed=1234).replace(solver='LSODA'), 'ctor solver')]
    return _perturb(SimulationStep.create, base, alts, sames, extra)


def _simstep_wf(tier):
    from pharmpy.model import SimulationStep

    fid = _fid(SimulationStep, 'create')
    for what, th in [('SimulationStep.create(n=0)', lambda: SimulationStep.create(n=0)),
                     ('SimulationStep.create(n=-1)', lambda: SimulationStep.create(n=-1)),
                     ('SimulationStep.create(n=2).replace(n=0)', lambda: SimulationStep.create(n=2).replace(n=0)),
                     ('SimulationStep.create(solver=XYZ)', lambda: SimulationStep.create(solver='XYZ'))]:
        yield what, (lambda what=what, th=th: _wf_expect_error(fid, what, th))


def _execsteps_entries(tier):
    from pharmpy.basic import Expr
    from pharmpy.model import EstimationStep, ExecutionSteps, SimulationStep

    s1 = EstimationStep.create('FOCE', interaction=True, tool_options={'A': 1})
    s1b = EstimationStep.create('FOCE', interaction=False, tool_options={'A': 1})
    s2 = EstimationStep.create('IMP', evaluation=True, isample=1000, residuals=['CWRES'], predictions=['PRED'],
                               derivatives=[[Expr.symbol('ETA1')]])
    sim = SimulationStep.create(n=3)
    base = dict(steps=(s1, s2))
    def L(label, *steps):
        return {'steps': steps, '_label': 'steps=(' + label + ')'}

    alts = [{'steps': ()}, {'steps': None}, L('FOCE', s1), L('IMP,FOCE', s2, s1), L('FOCE no interaction,IMP', s1b, s2),
            L('FOCE,SIM', s1, sim), L('SIM', sim), L('FOCE,IMP,SIM', s1, s2, sim), L('FOCE,FOCE', s1, s1)]
    sames = [{'steps': [s1, s2], '_label': 'steps=[FOCE,IMP]'},
             L('foce,IMP', EstimationStep.create('foce', interaction=True, tool_options={'A': 1}), s2)]
    extra = [('ctor', lambda: ExecutionSteps((s1, s2)), 'base'),
             ('add', lambda: ExecutionSteps.create((s1,)) + s2, 'base'),
             ('add list', lambda: ExecutionSteps.create((s1,)) + [s2], 'base'),
             ('add steps', lambda: ExecutionSteps.create((s1,)) + ExecutionSteps.create((s2,)), 'base'),
             ('radd', lambda: s1 + ExecutionSteps.create((s2,)), 'base'),
             ('slice', lambda: ExecutionSteps.create((s1, s2, sim))[0:2], 'base'),
             ('replace', lambda: ExecutionSteps.create((sim,)).replace(steps=[s1, s2]), 'base'),
             ('empty ctor', lambda: ExecutionSteps(), 'steps=()')]
    return _perturb(ExecutionSteps.create, base, alts, sames, extra)


# ------------------------------------------------------------------------------------------------
# spec: Model
# ------------------------------------------------------------------------------------------------
_CACHE = {}


def _pheno():
    if 'pheno' not in _CACHE:
        from pharmpy.modeling import load_example_model

        _CACHE['pheno'] = load_example_model('pheno')
    return _CACHE['pheno']


def _pheno_fresh():
    """parsed again from the file (not the cached object)"""
    from pharmpy.internals.fs.path import path_absolute  # noqa: F401
    from pharmpy.model import Model

    return Model.parse_model(_pheno().datainfo.path.parent / 'pheno.mod')


def _reversed_odes(model):
    """the same compartmental system with compartments and flows inserted in the reverse order"""
    from pharmpy.model import CompartmentalSystem, CompartmentalSystemBuilder, Statements, output

    odes = model.statements.ode_system
    names = odes.compartment_names
    comps = [odes.find_compartment(n) for n in names]
    flows = []
    for src in comps:
        for dst in comps + [output]:
            if dst is src:
                continue
            rate = odes.get_flow(src, dst)
            if rate != 0:
                flows.append((src, dst, rate))
    cb = CompartmentalSystemBuilder()
    for c in reversed(comps):
        cb.add_compartment(c)
    for src, dst, rate in reversed(flows):
        cb.add_flow(src, dst, rate)
    new = CompartmentalSystem.create(cb, t=odes.t)
    stats = model.statements
    return model.replace(statements=Statements.create(
        tuple(stats.before_odes) + (new,) + tuple(stats.after_odes)))


def _model_variants():
    """label -> (thunk, same_as)"""
    import pandas as pd

    from pharmpy import modeling as mo
    from pharmpy.basic import Expr
    from pharmpy.model import EstimationStep, ExecutionSteps, Model

    m = _pheno

    def cell():
        df = m().dataset.copy()
        df.loc[df.index[3], 'WGT'] = df.loc[df.index[3], 'WGT'] + 1.0
        return m().replace(dataset=df)

    def newcol():
        df = m().dataset.copy()
        df['NEW'] = 1.0
        return m().replace(dataset=df)

    def iie():
        return m().replace(initial_individual_estimates=pd.DataFrame({'ETA_CL': [0.1, 0.2], 'ETA_VC': [0.0, 0.1]},
                                                                    index=[1, 2]))

    def toolopts(d):
        st = m().execution_steps[0].replace(tool_options=d)
        return m().replace(execution_steps=ExecutionSteps.create([st]))

    return {
        'pheno': (lambda: m(), None),
        'pheno:parsed again': (_pheno_fresh, 'pheno'),
        'pheno:generic': (lambda: mo.convert_model(m(), 'generic'), 'pheno'),
        'pheno:replace()': (lambda: m().replace(), 'pheno'),
        'pheno:name': (lambda: m().replace(name='other'), 'pheno'),
        'pheno:description': (lambda: m().replace(description='another description'), 'pheno'),
        'pheno:datainfo path': (lambda: m().replace(datainfo=m().datainfo.replace(path='/nonexistent/x.csv')), 'pheno'),
        'pheno:dataset copy': (lambda: m().replace(dataset=m().dataset.copy()), 'pheno'),
        'pheno:from_dict': (lambda: Model.from_dict(Model.to_dict(m())), None),
        'init': (lambda: mo.set_initial_estimates(m(), {'POP_CL': 0.01}), None),
        'init:two steps': (lambda: mo.set_initial_estimates(mo.set_initial_estimates(m(), {'POP_CL': 0.02}),
                                                            {'POP_CL': 0.01}), 'init'),
        'fix': (lambda: mo.fix_parameters(m(), ['POP_CL']), None),
        'lower bound': (lambda: mo.set_lower_bounds(m(), {'POP_CL': 0.001}), None),
        'peripheral': (lambda: mo.add_peripheral_compartment(m()), None),
        'peripheral:odes built in reverse order': (lambda: _reversed_odes(mo.add_peripheral_compartment(m())),
                                                   'peripheral'),
        'absorption': (lambda: mo.set_first_order_absorption(m()), None),
        'error model': (lambda: mo.set_additive_error_model(m()), None),
        'statement': (lambda: m().replace(statements=m().statements.reassign('S1', Expr.symbol('VC') * 2)), None),
        'remove iiv': (lambda: mo.remove_iiv(m(), 'CL'), None),
        'joint iiv': (lambda: mo.create_joint_distribution(m()), None),
        'estimation method': (lambda: mo.set_estimation_step(m(), 'FO', 0), None),
        'estimation option': (lambda: mo.set_estimation_step(m(), 'FOCE', 0, interaction=False), None),
        'estimation added': (lambda: mo.add_estimation_step(m(), 'IMP'), None),
        'tool options': (lambda: toolopts({'A': 1, 'B': 2}), None),
        'tool options:other order': (lambda: toolopts({'B': 2, 'A': 1}), 'tool options'),
        'dataset cell': (cell, None),
        'dataset column': (newcol, None),
        'individual estimates': (iie, None),
        'dependent variables': (lambda: m().replace(dependent_variables={Expr.symbol('Y'): 2}), None),
        'observation transformation': (lambda: m().replace(
            observation_transformation={Expr.symbol('Y'): Expr.symbol('Y').log()}), None),
        'value type': (lambda: m().replace(value_type='LIKELIHOOD'), None),
        'empty': (lambda: Model.create('empty'), None),
        'empty#2': (lambda: Model(), 'empty'),
    }


def _model_entries(tier):
    return [Entry(label, th, same_as=same) for label, (th, same) in _model_variants().items()]


def _model_extra_unary(x, ent):
    """generic code round trip"""
    from pharmpy.model import Model
    from pharmpy.model.external.generic import convert_model, parse_model

    fid = _fid(parse_model)
    try:
        g = convert_model(x)
        code = g.code
        back = Model.parse_model_from_string(code)
        ok = _eq(back, g) and _eq(g, back) and _eq(back, x)
        det = f'parse_model_from_string(generic.code) == generic is {_eq(back, g)}'
        if not ok:
            parts = [k for k in ('parameters', 'random_variables', 'statements', 'execution_steps', 'datainfo',
                                 'dependent_variables', 'observation_transformation', 'value_type')
                     if not _safe_eq(getattr(back, k), getattr(g, k))]
            det += f'; differing parts: {parts}'
        else:
            hash(back)
        return [(fid, C_GENERIC, ok, det)]
    except Exception as e:
        return [(fid, C_GENERIC, False, 'raised ' + _exc(e))]


def _ref_statements_wellformed(seq, known):
    """property statement: every symbol used in a statement is a parameter, random variable, data column,
    the time variable or defined by an earlier statement"""
    defined = set(known)
    for lhs, rhs_symbols in seq:
        if not set(rhs_symbols) <= defined:
            return False
        defined.add(lhs)
    return True


def _model_wf(tier):
    from pharmpy.model import (
        Assignment,
        DataInfo,
        Model,
        NormalDistribution,
        Parameter,
        Parameters,
        RandomVariables,
        Statements,
    )

    params = Parameters.create([Parameter.create('TH', 1.0), Parameter.create('OM', 0.1)])
    rvs = RandomVariables.create([NormalDistribution.create('ETA', 'iiv', 0, 'OM')])
    di = DataInfo.create(['WGT'])
    known = {'TH', 'OM', 'ETA', 'WGT'}
    alphabet = {
        'A=TH': ('A', ['TH'], 'TH'),
        'A=A+1': ('A', ['A'], 'A + 1'),
        'B=A*ETA': ('B', ['A', 'ETA'], 'A*exp(ETA)'),
        'C=B+WGT': ('C', ['B', 'WGT'], 'B + WGT'),
        'D=X': ('D', ['X'], 'X'),
        'X=1': ('X', [], '1'),
    }
    keys = list(alphabet)
    fid = _fid(Model, '_canonicalize_statements')
    maxlen = 3 if tier == 'quick' else 4

    def one(seq, via):
        ref = _ref_statements_wellformed([(alphabet[k][0], alphabet[k][1]) for k in seq], known)
        stats = Statements.create([Assignment.create(alphabet[k][0], alphabet[k][2]) for k in seq])
        try:
            if via == 'create':
                mod = Model.create('m', parameters=params, random_variables=rvs, datainfo=di, statements=stats)
            else:
                mod = Model.create('m', parameters=params, random_variables=rvs, datainfo=di).replace(statements=stats)
        except ValueError:
            return [(fid, C_WF_STATS, not ref, 'raised ValueError although every symbol is defined before use')]
        except Exception as e:
            return [(fid, C_WF_STATS, False, 'raised undocumented ' + _exc(e))]
        return [(fid, C_WF_STATS, ref and mod.statements == stats,
                 'returned a model although a symbol is used before it is defined or never defined')]

    for n in range(1, maxlen + 1):
        for seq in itertools.product(keys, repeat=n):
            for via in ('create', 'replace'):
                yield f'Model.{via}(statements={list(seq)})', (lambda seq=seq, via=via: one(seq, via))
    for what, th in [('Model.create(name=1)', lambda: Model.create(1)),
                     ('Model.create(m, parameters=[...])', lambda: Model.create('m', parameters=[Parameter.create('A', 1)])),
                     ('Model.create(m, statements=[...])', lambda: Model.create('m', statements=[])),
                     ('Model.create(m, random_variables=[])', lambda: Model.create('m', random_variables=[])),
                     ('Model.create(m, datainfo=None)', lambda: Model.create('m', datainfo=None)),
                     ('Model.create(m, execution_steps=[])', lambda: Model.create('m', execution_steps=[])),
                     ('Model.create(m, value_type=XYZ)', lambda: Model.create('m', value_type='XYZ')),
                     ('Model.create(m, dependent_variables={1: 1})',
                      lambda: Model.create('m', dependent_variables={1: 1})),
                     ('Model.create(m).replace(nonexisting=1)', lambda: Model.create('m').replace(nonexisting=1))]:
        yield what, (lambda what=what, th=th: _wf_expect_error(_fid(Model, 'create'), what, th))


# ------------------------------------------------------------------------------------------------
# Model: the frame of the writers and code generators (no API call changes its input)
# ------------------------------------------------------------------------------------------------
# M2 = f(M) shares the data frames of M (Model.replace does not copy them).  Writing M2, or generating
# its code, must leave M2, M and the frames the caller handed in unchanged - deep, i.e. including the
# contents of the dataset and of the initial individual estimates - whether the call returns or raises.


def _frame_ie():
    """initial individual estimates for both etas of pheno, no two values equal, none zero"""
    import pandas as pd

    ids = sorted(set(int(i) for i in _pheno().dataset['ID']))
    return pd.DataFrame({'ETA_CL': [0.01 * (k + 1) for k in range(len(ids))],
                         'ETA_VC': [-0.02 * (k + 1) for k in range(len(ids))]},
                        index=pd.Index(ids, name='ID'))


def _frame_base():
    """pheno around a private copy of its dataset (nothing is shared with the cached model)"""
    m = _pheno()
    return m.replace(dataset=m.dataset.copy(deep=True))


def _frame_missing():
    import numpy as np

    m = _pheno()
    df = m.dataset.copy(deep=True)
    df.loc[df.index[[0, 5, 20]], 'WGT'] = np.nan
    df.loc[df.index[[1, 2]], 'APGR'] = np.nan
    return m.replace(dataset=df)


def _frame_parents():
    from pharmpy import modeling as mo

    return {
        'pheno': _frame_base,
        'pheno + update_initial_individual_estimates': lambda: mo.update_initial_individual_estimates(
            _frame_base(), _frame_ie()),
        'pheno.replace(initial_individual_estimates)': lambda: _frame_base().replace(
            initial_individual_estimates=_frame_ie()),
        'pheno with missing values in the dataset': _frame_missing,
    }


def _frame_transformations(tier):
    """label -> (the modeling function (for the fid), call(model))"""
    from pharmpy import modeling as mo

    tr = {
        'itself': (None, lambda m: m),
        'remove_iiv(CL)': (mo.remove_iiv, lambda m: mo.remove_iiv(m, 'CL')),
        'remove_iiv()': (mo.remove_iiv, lambda m: mo.remove_iiv(m)),
        'add_iiv(S1)': (mo.add_iiv, lambda m: mo.add_iiv(m, 'S1', 'exp')),
        'create_joint_distribution': (mo.create_joint_distribution, lambda m: mo.create_joint_distribution(m)),
        'set_initial_estimates': (mo.set_initial_estimates, lambda m: mo.set_initial_estimates(m, {'POP_CL': 0.01})),
        'add_peripheral_compartment': (mo.add_peripheral_compartment, lambda m: mo.add_peripheral_compartment(m)),
        'set_zero_order_absorption': (mo.set_zero_order_absorption, lambda m: mo.set_zero_order_absorption(m)),
        'add_time_after_dose': (mo.add_time_after_dose, lambda m: mo.add_time_after_dose(m)),
        'replace(name)': (None, lambda m: m.replace(name='other')),
    }
    if tier != 'quick':
        tr.update({
            'remove_iiv(VC)': (mo.remove_iiv, lambda m: mo.remove_iiv(m, 'VC')),
            'fix_parameters': (mo.fix_parameters, lambda m: mo.fix_parameters(m, ['POP_CL'])),
            'set_first_order_absorption': (mo.set_first_order_absorption,
                                           lambda m: mo.set_first_order_absorption(m)),
            'set_additive_error_model': (mo.set_additive_error_model, lambda m: mo.set_additive_error_model(m)),
            'add_estimation_step': (mo.add_estimation_step, lambda m: mo.add_estimation_step(m, 'IMP')),
            'drop_columns(APGR)': (mo.drop_columns, lambda m: mo.drop_columns(m, ['APGR'], mark=True)),
            'remove_iiv(CL) + remove_iiv(VC)': (mo.remove_iiv,
                                                lambda m: mo.remove_iiv(mo.remove_iiv(m, 'CL'), 'VC')),
        })
    return tr


def _frame_writers():
    """label -> (fid, call(model, directory))"""
    from pharmpy import modeling as mo
    from pharmpy.model.external.nonmem.model import Model as NMModel

    return {
        'model.code': (_fid(NMModel, 'code'), lambda m, d: m.code),
        'update_source()': (_fid(NMModel, 'update_source'), lambda m, d: m.update_source()),
        'write_model': (_fid(mo.write_model), lambda m, d: mo.write_model(m, os.path.join(d, 'run1.mod'))),
        'write_csv': (_fid(mo.write_csv), lambda m, d: mo.write_csv(m, os.path.join(d, 'data.csv'))),
        'write_files': (_fid(NMModel, 'write_files'),
                        lambda m, d: m.write_files(path=__import__('pathlib').Path(d) / 'run2.mod')),
    }


_FRAME_PARTS = ('datainfo', 'parameters', 'random_variables', 'statements', 'execution_steps',
                'dependent_variables', 'observation_transformation', 'name', 'description', 'value_type')


def _frame_same_df(a, b):
    if a is None or b is None:
        return a is None and b is None
    return (list(a.columns) == list(b.columns) and a.index.equals(b.index)
            and [str(t) for t in a.dtypes] == [str(t) for t in b.dtypes] and bool(a.equals(b)))


def _frame_snapshot(model):
    """deep snapshot: the frames are copied before anything is generated from the model"""
    ds, ie = model.dataset, model.initial_individual_estimates
    snap = {'dataset': None if ds is None else ds.copy(deep=True),
            'initial_individual_estimates': None if ie is None else ie.copy(deep=True)}
    for part in _FRAME_PARTS:
        snap[part] = getattr(model, part)
    try:
        snap['code'] = model.code
    except Exception as e:
        snap['code'] = 'raised ' + type(e).__name__
    return snap


def _frame_changes(model, snap):
    """names of the parts of the model that are no longer what the snapshot recorded"""
    out = []
    for part in ('dataset', 'initial_individual_estimates'):
        now = getattr(model, part)
        if not _frame_same_df(now, snap[part]):
            cols = []
            if now is not None and snap[part] is not None and list(now.columns) == list(snap[part].columns) \
                    and len(now) == len(snap[part]):
                cols = [c for c in now.columns if not now[c].equals(snap[part][c])]
            out.append(part + (f' (columns {cols})' if cols else ''))
    for part in _FRAME_PARTS:
        if not _safe_eq(getattr(model, part), snap[part]):
            out.append(part)
    try:
        code = model.code
    except Exception as e:
        code = 'raised ' + type(e).__name__
    if code != snap['code']:
        out.append('generated code')
    return out


C_FRAME_ARG = ('writing a model / generating its code does not modify the model (deep: dataset, initial '
               'individual estimates, datainfo, parameters, random variables, statements, generated code)')
C_FRAME_PARENT = ('writing a model / generating its code does not modify the model it was derived from '
                  '(the two share their data frames)')
C_FRAME_TR = ('a transformation does not modify the model it is applied to (deep: dataset, initial individual '
              'estimates, datainfo, parameters, random variables, statements, generated code)')


def _frame_case(parent_label, tr_label, writer_label, tier):
    """parent -> derived = transformation(parent) -> writer(derived), with the frame evaluated after each
    step so that a modification is attributed to the call that made it"""
    import shutil
    import tempfile

    from pharmpy.model import Model

    parents = _frame_parents()
    parent = (parents[parent_label] if parent_label in parents else _convert_parents(tier)[parent_label])()
    psnap = _frame_snapshot(parent)
    writers = _frame_writers()
    fid, call = writers[writer_label] if writer_label in writers else _convert_writers()[writer_label]
    tr_fn, tr_call = _frame_transformations(tier)[tr_label]
    tr_fid = _fid(tr_fn) if tr_fn is not None else _fid(Model, 'replace')
    res = []
    outcome = 'returned'
    derived = None
    try:
        derived = tr_call(parent)
    except Exception as e:
        outcome = 'raised ' + _exc(e)
    ch = _frame_changes(parent, psnap)
    res.append((tr_fid, C_FRAME_TR, not ch, f'{tr_label} {outcome}; changed in the model given to it: {ch}'))
    if derived is None:
        return res  # the transformation is not applicable to this parent
    if ch:
        psnap = _frame_snapshot(parent)
    dsnap = _frame_snapshot(derived)  # generates the code of the derived model
    if derived is not parent:
        ch = _frame_changes(parent, psnap)
        res.append((_frame_writers()['model.code'][0], C_FRAME_PARENT, not ch,
                    f'model.code returned; changed in the model that {tr_label} was applied to: {ch}'))
        if ch:
            psnap = _frame_snapshot(parent)
    d = tempfile.mkdtemp(prefix='b_structs_')
    try:
        call(derived, d)
    except Exception as e:
        outcome = 'raised ' + _exc(e)
    finally:
        shutil.rmtree(d, ignore_errors=True)
    ch = _frame_changes(derived, dsnap)
    res.append((fid, C_FRAME_ARG, not ch, f'{writer_label} {outcome}; changed in the model given to it: {ch}'))
    if derived is not parent:
        ch = _frame_changes(parent, psnap)
        res.append((fid, C_FRAME_PARENT, not ch,
                    f'{writer_label} {outcome}; changed in the model that {tr_label} was applied to: {ch}'))
    return res


def _model_frame_wf(tier):
    for pl in _frame_parents():
        for tl in _frame_transformations(tier):
            for wl in _frame_writers():
                yield (f'frame: {pl} -> {tl} -> {wl}',
                       (lambda pl=pl, tl=tl, wl=wl: _frame_case(pl, tl, wl, tier)))


# ------------------------------------------------------------------------------------------------
# Model: the converters to other model formats are held to the same frame, on models whose dataset has the
# optional NM-TRAN data items (the converters edit the dataset for their target tool)
# ------------------------------------------------------------------------------------------------
# column -> (column type in the datainfo, value of a dose record, value of any other record)
_CONVERT_COLUMNS = {
    'RATE': ('rate', 0.0, 0.0),
    'DUR': ('unknown', 0.0, 0.0),
    'SS': ('ss', 0, 0),
    'II': ('ii', 0, 0),
    'ADDL': ('additional', 0, 0),
    'CMT': ('compartment', 1, 1),
    'EVID': ('event', 1, 0),
    'MDV': ('mdv', 1, 0),
}


def _convert_parent(columns):
    """pheno around a private copy of its dataset with the given data items appended"""
    m = _pheno()
    df = m.dataset.copy(deep=True)
    dose = df['AMT'] > 0
    for c in columns:
        tp, dval, oval = _CONVERT_COLUMNS[c]
        df[c] = [dval if d else oval for d in dose]
    model = m.replace(dataset=df)
    di = model.datainfo
    for c in columns:
        tp = _CONVERT_COLUMNS[c][0]
        if tp != 'unknown':
            di = di.set_column(di[c].replace(type=tp))
    return model.replace(datainfo=di)


def _convert_parents(tier):
    """the data items alone and in pairs"""
    names = list(_CONVERT_COLUMNS)
    sets = [(c,) for c in names] + list(itertools.combinations(names, 2))
    return {'pheno with the data item' + ('s ' if len(cs) > 1 else ' ') + ', '.join(cs):
            (lambda cs=cs: _convert_parent(cs)) for cs in sets}


def _convert_writers():
    from pharmpy import modeling as mo

    def conv(fmt):
        return lambda m, d: mo.convert_model(m, fmt)

    return {f'convert_model({fmt})': (_fid(mo.convert_model), conv(fmt)) for fmt in ('nlmixr', 'rxode', 'generic')}


def _model_convert_wf(tier):
    """each parent -> replace(name) (a derived model that shares its data frames with the parent) -> converter;
    thorough: also the parent itself and the parents of the writers' frame"""
    trs = ['replace(name)'] if tier == 'quick' else ['replace(name)', 'itself', 'add_time_after_dose']
    parents = list(_convert_parents(tier)) + ([] if tier == 'quick' else list(_frame_parents()))
    for pl in parents:
        for tl in trs:
            for wl in _convert_writers():
                yield (f'frame: {pl} -> {tl} -> {wl}',
                       (lambda pl=pl, tl=tl, wl=wl: _frame_case(pl, tl, wl, tier)))


# ------------------------------------------------------------------------------------------------
# Model: transformations of a model that had been hashed before (equality stays consistent with hashing
# along transformation sequences: hashes are cached in the components, a derived component must not
# inherit the cached hash of the component it was derived from)
# ------------------------------------------------------------------------------------------------
def _model_transformations(tier):
    """label -> transformation(model) of the pheno model; every component of a model is changed by some of them"""
    import pandas as pd

    from pharmpy import modeling as mo
    from pharmpy.basic import Expr
    from pharmpy.model import ExecutionSteps

    def toolopts(m):
        st = m.execution_steps[0].replace(tool_options={'A': 1, 'B': 2})
        return m.replace(execution_steps=ExecutionSteps.create([st]))

    def cell(m):
        df = m.dataset.copy()
        df.loc[df.index[3], 'WGT'] = df.loc[df.index[3], 'WGT'] + 1.0
        return m.replace(dataset=df)

    def iie(m):
        return m.replace(initial_individual_estimates=pd.DataFrame(
            {'ETA_CL': [0.1, 0.2], 'ETA_VC': [0.0, 0.1]}, index=[1, 2]))

    def tmdd_dv_types(m):
        # dv_types needs a DVID column
        df = m.dataset.copy()
        df['DVID'] = 1
        m = m.replace(dataset=df)
        m = m.replace(datainfo=m.datainfo.set_column(m.datainfo['DVID'].replace(type='dvid')))
        return mo.set_tmdd(m, 'qss', dv_types={'drug': 1, 'target': 2})

    y = Expr.symbol('Y')
    tr = {
        'replace()': lambda m: m.replace(),
        'replace(name)': lambda m: m.replace(name='other'),
        'set_initial_estimates': lambda m: mo.set_initial_estimates(m, {'POP_CL': 0.01}),
        'fix_parameters': lambda m: mo.fix_parameters(m, ['POP_CL']),
        'add_peripheral_compartment': lambda m: mo.add_peripheral_compartment(m),
        'set_first_order_absorption': lambda m: mo.set_first_order_absorption(m),
        'set_additive_error_model': lambda m: mo.set_additive_error_model(m),
        'statements.reassign': lambda m: m.replace(statements=m.statements.reassign('S1', Expr.symbol('VC') * 2)),
        'remove_iiv': lambda m: mo.remove_iiv(m, 'CL'),
        'create_joint_distribution': lambda m: mo.create_joint_distribution(m),
        'set_estimation_step': lambda m: mo.set_estimation_step(m, 'FO', 0),
        'add_estimation_step': lambda m: mo.add_estimation_step(m, 'IMP'),
        'tool options': toolopts,
        'dataset cell': cell,
        'initial individual estimates': iie,
        'replace(dependent_variables)': lambda m: m.replace(dependent_variables={y: 2}),
        'dependent_variables.replace(Y, 2)': lambda m: m.replace(
            dependent_variables=m.dependent_variables.replace(y, 2)),
        'replace(observation_transformation)': lambda m: m.replace(observation_transformation={y: y.log()}),
        'observation_transformation.replace(Y, log(Y))': lambda m: m.replace(
            observation_transformation=m.observation_transformation.replace(y, y.log())),
        'replace(value_type)': lambda m: m.replace(value_type='LIKELIHOOD'),
        'set_direct_effect(linear)': lambda m: mo.set_direct_effect(m, 'linear'),
        'add_effect_compartment(linear)': lambda m: mo.add_effect_compartment(m, 'linear'),
        'add_indirect_effect(linear)': lambda m: mo.add_indirect_effect(m, 'linear'),
        'set_baseline_effect': lambda m: mo.set_baseline_effect(m),
        'add_metabolite': lambda m: mo.add_metabolite(m),
        'add_time_after_dose': lambda m: mo.add_time_after_dose(m),
    }
    if tier != 'quick':
        for e in ('emax', 'sigmoid', 'step', 'loglin'):
            tr[f'set_direct_effect({e})'] = lambda m, e=e: mo.set_direct_effect(m, e)
            tr[f'add_effect_compartment({e})'] = lambda m, e=e: mo.add_effect_compartment(m, e)
        for e in ('emax', 'sigmoid'):
            tr[f'add_indirect_effect({e})'] = lambda m, e=e: mo.add_indirect_effect(m, e)
            tr[f'add_indirect_effect({e}, prod=False)'] = lambda m, e=e: mo.add_indirect_effect(m, e, prod=False)
        tr.update({
            'set_lower_bounds': lambda m: mo.set_lower_bounds(m, {'POP_CL': 0.001}),
            'set_zero_order_absorption': lambda m: mo.set_zero_order_absorption(m),
            'set_transit_compartments': lambda m: mo.set_transit_compartments(m, 2),
            'add_lag_time': lambda m: mo.add_lag_time(m),
            'set_michaelis_menten_elimination': lambda m: mo.set_michaelis_menten_elimination(m),
            'set_proportional_error_model': lambda m: mo.set_proportional_error_model(m),
            'set_combined_error_model': lambda m: mo.set_combined_error_model(m),
            'add_iiv': lambda m: mo.add_iiv(m, 'S1', 'exp'),
            'add_covariate_effect': lambda m: mo.add_covariate_effect(m, 'CL', 'WGT', 'pow'),
            'add_allometry': lambda m: mo.add_allometry(m, allometric_variable='WGT'),
            'transform_etas_boxcox': lambda m: mo.transform_etas_boxcox(m),
            'set_tmdd(full)': lambda m: mo.set_tmdd(m, 'full'),
            'set_tmdd(qss, dv_types)': tmdd_dv_types,
            'drop_columns': lambda m: mo.drop_columns(m, ['APGR']),
            'add_predictions': lambda m: mo.add_predictions(m, ['CIPREDI']),
        })
    return tr


def _model_unhashed_copy():
    """a structurally new copy of pheno (every component rebuilt from its dictionary form) that has never
    been hashed, around the dataset of pheno"""
    from pharmpy.model import Model

    m = _pheno()
    return Model.from_dict(Model.to_dict(m)).replace(dataset=m.dataset)


def _model_hashed_case(label, tier):
    from pharmpy.model import Model

    fid = _fid(Model, '__hash__')
    tr = _model_transformations(tier)[label]
    fresh = _model_unhashed_copy()
    if 'hashed copy' not in _CACHE:
        # built once: the transformations do not modify it, and hashing it again changes nothing
        _CACHE['hashed copy'] = _model_unhashed_copy()
    hashed = _CACHE['hashed copy']
    hash(hashed)
    for part in ('parameters', 'random_variables', 'statements', 'dependent_variables',
                 'observation_transformation', 'execution_steps', 'datainfo'):
        hash(getattr(hashed, part))
    outcome = []
    for src in (fresh, hashed):
        try:
            outcome.append(('returned', tr(src)))
        except Exception as e:
            outcome.append(('raised', _exc(e)))
    (ka, a), (kb, b) = outcome
    if ka != kb:
        return [(fid, C_MODEL_DERIVE, False, f'on the never-hashed copy the transformation {ka} {_short(a, 60)}, on '
                 f'the hashed copy it {kb} {_short(b, 60)}')]
    if ka == 'raised':
        return [(fid, C_MODEL_DERIVE, True, '')]  # not applicable to this model
    if not (_eq(a, b) and _eq(b, a)):
        return [(fid, C_MODEL_DERIVE, False, 'the two results are not equal; differing fields: ' + _diff_fields(a, b))]
    ha, hb = hash(a), hash(b)
    if ha != hb:
        parts = [k for k in ('parameters', 'random_variables', 'statements', 'dependent_variables',
                             'observation_transformation', 'execution_steps', 'datainfo')
                 if hash(getattr(a, k)) != hash(getattr(b, k))]
        return [(fid, C_MODEL_DERIVE, False, 'the two results are equal but have different hashes; equal parts with '
                 f'different hashes: {parts}')]
    return [(fid, C_MODEL_DERIVE, True, '')]


def _model_hashed_wf(tier):
    for label in _model_transformations(tier):
        yield (f'hashed source: {label}', (lambda label=label: _model_hashed_case(label, tier)))


# ------------------------------------------------------------------------------------------------
# Model: serialisation round trips over the ODE structures the API can produce (evaluated apart from the
# corpus of the class: dictionary form and generic code of the model, of its statements and of its ODE system)
# ------------------------------------------------------------------------------------------------
def _model_structures(tier):
    """label -> model; compartmental systems with chains, cycles, several outputs, inputs and compartments
    that take part in no flow"""
    from pharmpy import modeling as mo
    from pharmpy.basic import Expr
    from pharmpy.model import Compartment, CompartmentalSystem, CompartmentalSystemBuilder

    def with_compartments(model, comps):
        odes = model.statements.ode_system
        cb = CompartmentalSystemBuilder(odes)
        for c in comps:
            cb.add_compartment(c)
        st = model.statements
        return model.replace(statements=st.before_odes + CompartmentalSystem.create(cb, t=odes.t) + st.after_odes)

    def auc(model):
        central = model.statements.ode_system.central_compartment
        return Compartment.create('AUC', input=central.amount / Expr.symbol('S1'))

    m = _pheno
    st = {
        'pheno': lambda: m(),
        'pheno + compartment without any flow, fed by its input (AUC)': lambda: with_compartments(m(), [auc(m())]),
        'pheno + compartment without any flow or input': lambda: with_compartments(m(), [Compartment.create('EXTRA')]),
        'pheno + two compartments without any flow': lambda: with_compartments(
            m(), [auc(m()), Compartment.create('EXTRA')]),
        'peripheral + compartment without any flow (AUC)': lambda: (
            lambda p: with_compartments(p, [auc(p)]))(mo.add_peripheral_compartment(m())),
        'first order absorption + compartment without any flow (AUC)': lambda: (
            lambda p: with_compartments(p, [auc(p)]))(mo.set_first_order_absorption(m())),
        'peripheral': lambda: mo.add_peripheral_compartment(m()),
        'two peripherals': lambda: mo.add_peripheral_compartment(mo.add_peripheral_compartment(m())),
        'first order absorption': lambda: mo.set_first_order_absorption(m()),
        'transit compartments': lambda: mo.set_transit_compartments(m(), 2),
        'effect compartment': lambda: mo.add_effect_compartment(m(), 'linear'),
        'indirect effect': lambda: mo.add_indirect_effect(m(), 'linear'),
        'metabolite': lambda: mo.add_metabolite(m()),
    }
    if tier != 'quick':
        st.update({
            'zero order absorption': lambda: mo.set_zero_order_absorption(m()),
            'lag time': lambda: mo.add_lag_time(m()),
            'michaelis menten elimination': lambda: mo.set_michaelis_menten_elimination(m()),
            'tmdd full': lambda: mo.set_tmdd(m(), 'full'),
            'tmdd qss': lambda: mo.set_tmdd(m(), 'qss'),
            'presystemic metabolite': lambda: mo.add_metabolite(mo.set_first_order_absorption(m()), presystemic=True),
            'effect compartment + compartment without any flow (AUC)': lambda: (
                lambda p: with_compartments(p, [auc(p)]))(mo.add_effect_compartment(m(), 'linear')),
        })
    return st


def _model_structure_case(label, tier):
    from pharmpy.model import CompartmentalSystem, Model, Statements
    from pharmpy.model.external.generic import parse_model

    x = _model_structures(tier)[label]()
    res = []
    odes = x.statements.ode_system
    levels = [(CompartmentalSystem, odes, lambda v: v.to_dict(), CompartmentalSystem.from_dict),
              (Statements, x.statements, lambda v: v.to_dict(), Statements.from_dict),
              (Model, x, lambda v: Model.to_dict(v), Model.from_dict)]
    for cls, obj, to_dict, from_dict in levels:
        fid = _fid(cls, 'from_dict')
        try:
            d = to_dict(obj)
            for clause, dd in ((C_RT, d), (C_RTJ, json.loads(json.dumps(d)))):
                back = from_dict(dd)
                ok = _eq(back, obj) and _eq(obj, back)
                det = f'{cls.__name__}: round trip == x is {ok}'
                if ok:
                    hash(back)
                elif cls is CompartmentalSystem:
                    det += f'; compartments {back.compartment_names} expected {obj.compartment_names}'
                else:
                    det += '; differing fields: ' + _diff_fields(back, obj)
                res.append((fid, clause, ok, det))
        except Exception as e:
            res.append((fid, C_RT, False, f'{cls.__name__}: raised ' + _exc(e)))
    res.extend(_model_extra_unary(x, None))
    return res


def _model_structure_wf(tier):
    for label in _model_structures(tier):
        yield (f'ODE structure: {label}', (lambda label=label: _model_structure_case(label, tier)))


def _model_wf_all(tier):
    yield from _model_wf(tier)
    yield from _model_frame_wf(tier)
    yield from _model_convert_wf(tier)
    yield from _model_hashed_wf(tier)
    yield from _model_structure_wf(tier)


# ------------------------------------------------------------------------------------------------
# registry and the check function
# ------------------------------------------------------------------------------------------------
def _specs():
    from pharmpy.basic import Expr, Matrix, Unit
    from pharmpy.internals.immutable import frozenmapping
    from pharmpy.model import (
        Assignment,
        Bolus,
        ColumnInfo,
        Compartment,
        CompartmentalSystem,
        DataInfo,
        EstimationStep,
        ExecutionSteps,
        Infusion,
        JointNormalDistribution,
        Model,
        NormalDistribution,
        Parameter,
        Parameters,
        RandomVariables,
        SimulationStep,
        Statements,
        VariabilityHierarchy,
        VariabilityLevel,
    )
    from pharmpy.model.execution_steps import ExecutionStep
    from pharmpy.model.statements import Output

    def td(x):
        return x.to_dict()

    ser = ('serialize', 'deserialize')
    specs = [
        Spec('Expr', Expr, _expr_entries, lambda x: x.serialize(), Expr.deserialize, dict_names=ser,
             create_name='__init__'),
        Spec('Matrix', Matrix, _matrix_entries, lambda x: x.serialize(), Matrix.deserialize, dict_names=ser,
             create_name='__init__'),
        Spec('Unit', Unit, _unit_entries, lambda x: x.serialize(), Unit.deserialize, dict_names=ser,
             create_name='__init__'),
        Spec('frozenmapping', frozenmapping, _frozenmapping_entries, wf=_frozenmapping_wf, create_name='__init__'),
        Spec('Parameter', Parameter, _parameter_entries, td, Parameter.from_dict, _parameter_wf),
        Spec('Parameters', Parameters, _parameters_entries, td, Parameters.from_dict, _parameters_wf),
        Spec('ColumnInfo', ColumnInfo, _columninfo_entries, td, ColumnInfo.from_dict, _columninfo_wf),
        Spec('DataInfo', DataInfo, _datainfo_entries, td, DataInfo.from_dict, _datainfo_wf),
        Spec('Assignment', Assignment, _assignment_entries, td, Assignment.from_dict, _assignment_wf),
        Spec('Bolus', Bolus, _bolus_entries, td, Bolus.from_dict),
        Spec('Infusion', Infusion, _infusion_entries, td, Infusion.from_dict, _infusion_wf),
        Spec('Compartment', Compartment, _compartment_entries, td, Compartment.from_dict, _compartment_wf),
        Spec('Output', Output, _output_entries, td, Output.from_dict, create_name='__new__'),
        Spec('CompartmentalSystem', CompartmentalSystem, _cs_entries, td, CompartmentalSystem.from_dict, _cs_wf),
        Spec('Statements', Statements, _statements_entries, td, Statements.from_dict, _statements_wf),
        Spec('VariabilityLevel', VariabilityLevel, _varlevel_entries, td, VariabilityLevel.from_dict),
        Spec('VariabilityHierarchy', VariabilityHierarchy, _varhier_entries, td, VariabilityHierarchy.from_dict,
             _varhier_wf),
        Spec('NormalDistribution', NormalDistribution, _normal_entries, td, NormalDistribution.from_dict, _normal_wf),
        Spec('JointNormalDistribution', JointNormalDistribution, _joint_entries, td,
             JointNormalDistribution.from_dict, _joint_wf),
        Spec('RandomVariables', RandomVariables, _rvs_entries, td, RandomVariables.from_dict, _rvs_wf),
        Spec('ExecutionStep', ExecutionStep, _execstep_entries, create_name='__init__'),
        Spec('EstimationStep', EstimationStep, _eststep_entries, td, EstimationStep.from_dict, _eststep_wf),
        Spec('SimulationStep', SimulationStep, _simstep_entries, td, SimulationStep.from_dict, _simstep_wf),
        Spec('ExecutionSteps', ExecutionSteps, _execsteps_entries, td, ExecutionSteps.from_dict),
        Spec('Model', Model, _model_entries, lambda x: Model.to_dict(x), Model.from_dict, _model_wf_all),
    ]
    specs[-1].extra_unary = _model_extra_unary
    specs[-1].parallel_wf = True
    return specs


def _run_spec_by_name(args):
    name, tier = args
    warnings.filterwarnings('ignore')
    spec = next(s for s in _specs() if s.name == name)
    return (name,) + _check_spec(spec, tier)


def bounded_value_classes(tier, only=None):
    names = [s.name for s in _specs()]
    if only:
        names = [n for n in names if n in only.split(',')]
    results = [_run_spec_by_name((n, tier)) for n in names]
    cases = nontriv = 0
    fails, samples, per = [], [], []
    for name, c, nt, f, smp in results:
        cases += c
        nontriv += nt
        per.append(f'{name}:{c}')
        for fail in f.values():
            # one entry per (fid, clause): a clause that fails in the checks of two classes (the ODE structures
            # of the Model checks are also held to the clauses of CompartmentalSystem / Statements) is reported
            # with the first (smallest) case and all failing cases in enumeration order
            first = next((g for g in fails if (g['fid'], g['clause']) == (fail['fid'], fail['clause'])), None)
            if first is None:
                fails.append(fail)
            else:
                first['failing_cases'] += fail['failing_cases']
                first['also'] = (first['also'] + [c for c in fail['also'] if c not in first['also']])[:300]
        if len(samples) < 3 and smp and name in ('Parameter', 'CompartmentalSystem', 'Model'):
            samples.append(smp[0])
    return {
        'cases': cases,
        'nontrivial': nontriv,
        'bound': 'per value class (25 classes): a base argument set plus every one-field perturbation and same-value '
                 'rebuild listed in the class spec (CompartmentalSystem: all 6 compartment insertion orders x '
                 + ('5' if tier == 'quick' else 'all 24') + ' flow insertion orders of a 3-compartment system; Expr: '
                 'all 6 unary / 5 binary operations over 7 atoms' + ('' if tier == 'quick' else ' and all binary '
                 'operations of a unary result with an atom') + '; Model: pheno example model + 32 variants made by '
                 'one transformation or replace()), all ordered pairs within each class; well-formedness: '
                 'Parameter.create over the full ' + ('8x7x8' if tier == 'quick' else '11x10x11') + ' (lower, init, '
                 'upper) grid incl. inf/nan/None, all sequences of <=' + ('3' if tier == 'quick' else '4')
                 + ' elements over 4-6 element alphabets for Parameters, RandomVariables, VariabilityHierarchy '
                 'and Model statements, all +/radd/replace combinations of collections with <=2 elements; frame of '
                 'the writers: 4 parent models (pheno; with initial individual estimates set by '
                 'update_initial_individual_estimates / by replace; with missing values in the dataset) x '
                 + ('10' if tier == 'quick' else '17') + ' derivations (itself, remove_iiv, add_iiv, joint distribution, '
                 'initial estimates, peripheral compartment, zero order absorption, time after dose, rename'
                 + ('' if tier == 'quick' else ', fix, first order absorption, error model, estimation step, '
                    'dropped column, two removals') + ') x 5 writers (model.code, update_source, write_model, '
                 'write_csv, write_files) with deep snapshots (data frame contents, generated code) of the derived '
                 'model and of its parent around every step; the same frame for convert_model to nlmixr / rxode / '
                 'generic on pheno with each of the data items ' + ', '.join(_CONVERT_COLUMNS) + ' and each pair of '
                 'them appended to its dataset (' + str(len(_convert_parents(tier))) + ' models'
                 + (', converted through a renamed copy that shares the data frames' if tier == 'quick' else
                    ' and the 4 parents above; converted directly, through a renamed copy and after '
                    'add_time_after_dose') + '); CompartmentalSystem also with every subset of the flows that keeps '
                 'the output flow (isolated compartments) without / with an accumulation compartment outside every '
                 'flow; replace() after hashing: for every one-field perturbation of every class with create() and '
                 'replace(), base.replace(field=value) with base hashed before / never hashed / created directly; '
                 'frozenmapping.replace on ' + ('4' if tier == 'quick' else '6') + ' mappings x every key and one new '
                 'key x 3 values x source never hashed / hashed / copy of a hashed mapping; '
                 + str(len(_model_transformations(tier))) + ' transformations (every component of the model, all '
                 'PD / metabolite' + ('' if tier == 'quick' else ' / TMDD') + ' functions that add a dependent '
                 'variable) applied to a hashed and to a never-hashed structural copy of pheno; dictionary and '
                 'generic-code round trips of the model, its statements and its ODE system for '
                 + str(len(_model_structures(tier))) + ' ODE structures (peripherals, absorption, transit, effect, '
                 'indirect response, metabolite' + ('' if tier == 'quick' else ', TMDD') + ', and compartments '
                 'that take part in no flow, with and without an input)',
        'samples': samples,
        'per_class_cases': ' '.join(per),
        'fails': fails,
    }


def bounded_value_classes_replay(rp):
    case = rp['case']
    spec = next(s for s in _specs() if s.name == case['cls'])
    key = (case['fid'], case['clause'])
    for tier in ('quick', 'thorough'):
        if case['kind'] == 'wf':
            for case_id, thunk in _all_wf(spec, tier):
                if case_id == case['x']:
                    try:
                        results = thunk()
                    except Exception as e:
                        return False, 'internal error ' + _exc(e)
                    for fid, clause, ok, detail in results:
                        if (fid, clause) == key and not ok:
                            return False, f'{case_id}: {detail}'
                    return True, 'ok'
            continue
        ents = {e.label: e for e in spec.entries(tier)}
        if case['x'] not in ents or (case.get('y') and case['y'] not in ents):
            continue
        if case['kind'] == 'build':
            try:
                ents[case['x']].thunk()
            except Exception as e:
                return False, f'building {case["x"]} raised ' + _exc(e)
            return True, 'ok'
        ex = ents[case['x']]
        ex.obj = ex.thunk()
        if case['kind'] == 'unary':
            base = None
            if ex.same_as:
                base = ents[ex.same_as].thunk()
            for fid, clause, ok, detail in _unary(spec, ex.obj, ex, base):
                if (fid, clause) == key and not ok:
                    return False, f'x = {ex.label}: {detail}'
            return True, 'ok'
        ey = ents[case['y']]
        ey.obj = ey.thunk()
        res, _ = _pairwise(spec, [ex, ey])
        for fid, clause, ok, detail, i, j in res:
            if (fid, clause) == key and not ok:
                return False, f'x = {[ex, ey][i].label}, y = {[ex, ey][j].label}: {detail}'
        if case['clause'] == C_TRANS:
            # needs the whole corpus
            allents, _ = _build(spec, tier)
            res, _ = _pairwise(spec, allents)
            for fid, clause, ok, detail, i, j in res:
                if (fid, clause) == key and not ok:
                    return False, detail
        return True, 'ok'
    return True, 'case not found in the corpus'


# ------------------------------------------------------------------------------------------------
# ModelHash
# ------------------------------------------------------------------------------------------------
C_H_SAME = 'models with the same content (differing only in name, description, paths or build order) have the same key'
C_H_DIFF = 'models that differ in a parameter, random variable, statement, execution step or data value have different keys'
C_H_PROC = 'the key computed in a fresh interpreter (PYTHONHASHSEED=0, 1, random) equals the in-process key'
C_H_STABLE = 'computing the key twice gives the same key and leaves the model equal to itself'
C_H_HIST = ('the key of a model does not depend on which other models were hashed before it in the same process '
            '(the keys computed in the reverse order in a fresh interpreter equal the in-process keys)')
_SEEDS = ('0', '1', 'random')


def _hash_variants():
    """label -> (thunk, content class).  Two variants have the same mathematical content and dataset
    iff they are in the same content class (by construction)."""
    from pharmpy import modeling as mo

    mv = _model_variants()
    m = _pheno

    def both(first, second):
        vals = {'POP_CL': 0.01, 'POP_VC': 1.5}
        return mo.set_initial_estimates(mo.set_initial_estimates(m(), {first: vals[first]}), {second: vals[second]})

    v = {}
    for label in ('pheno', 'pheno:parsed again', 'pheno:generic', 'pheno:replace()', 'pheno:name', 'pheno:description',
                  'pheno:datainfo path', 'pheno:dataset copy'):
        v[label] = (mv[label][0], 'pheno')
    v['pheno:name and description'] = (lambda: m().replace(name='x', description='y'), 'pheno')
    v['init'] = (mv['init'][0], 'init')
    v['init:two steps'] = (mv['init:two steps'][0], 'init')
    v['two inits:at once'] = (lambda: mo.set_initial_estimates(m(), {'POP_CL': 0.01, 'POP_VC': 1.5}), 'two inits')
    v['two inits:dict in other order'] = (lambda: mo.set_initial_estimates(m(), {'POP_VC': 1.5, 'POP_CL': 0.01}),
                                          'two inits')
    v['two inits:CL then VC'] = (lambda: both('POP_CL', 'POP_VC'), 'two inits')
    v['two inits:VC then CL'] = (lambda: both('POP_VC', 'POP_CL'), 'two inits')
    v['peripheral'] = (mv['peripheral'][0], 'peripheral')
    v['peripheral:odes built in reverse order'] = (mv['peripheral:odes built in reverse order'][0], 'peripheral')
    v['tool options'] = (mv['tool options'][0], 'tool options')
    v['tool options:other order'] = (mv['tool options:other order'][0], 'tool options')
    for label in ('fix', 'lower bound', 'absorption', 'error model', 'statement', 'remove iiv', 'joint iiv',
                  'estimation method', 'estimation option', 'estimation added', 'dataset cell', 'dataset column',
                  'dependent variables', 'value type'):
        v[label] = (mv[label][0], label)
    v.update(_hash_field_variants())

    # mappings of the model built in another insertion order (same content): dependent variables of a model with
    # two of them, and with them the observation transformations
    def two_dvs():
        return mo.set_direct_effect(m(), 'linear')

    def two_dvs_reversed():
        x = two_dvs()
        kw = {'dependent_variables': dict(reversed(list(x.dependent_variables.items())))}
        if len(x.observation_transformation) > 1:
            kw['observation_transformation'] = dict(reversed(list(x.observation_transformation.items())))
        return x.replace(**kw)

    v['two dvs'] = (two_dvs, 'two dvs')
    v['two dvs:mappings built in the other order'] = (two_dvs_reversed, 'two dvs')
    return v


def _hash_field_variants():
    """pheno with ONE field of its estimation step, of one of its column descriptions or of its datainfo changed
    (every field of these classes).  A changed execution step is a content class of its own (the property names
    the execution steps); for a changed column description / datainfo field the property does not say whether
    the key changes: content class (pheno, field), see _content_relation."""
    from pharmpy.basic import Expr
    from pharmpy.model import ExecutionSteps

    m = _pheno
    eta = [Expr.symbol(n) for n in ('ETA_CL', 'ETA_VC')]
    step_fields = [
        ('interaction', [False, True]), ('parameter_uncertainty_method', ['SMAT', 'RMAT']),
        ('evaluation', [True, False]), ('maximum_evaluations', [17, 18]), ('laplace', [True, False]),
        ('isample', [10, 11]), ('niter', [5, 6]), ('auto', [True, False]), ('keep_every_nth_iter', [2, 3]),
        ('residuals', [('CWRES',), ('RES',)]), ('predictions', [('PRED',), ('IPRED',)]),
        ('solver', ['LSODA', 'CVODES']), ('solver_rtol', [3, 4]), ('solver_atol', [3, 4]),
        ('tool_options', [{'A': 1}, {'A': 2}]), ('derivatives', [((eta[0],),), ((eta[1],),)]),
        ('individual_eta_samples', [True, False]),
    ]
    column_fields = [
        ('type', ['unknown', 'covariate']), ('unit', ['mg', 'kg']), ('scale', ['interval', 'ratio']),
        ('continuous', [False, True]), ('categories', [(1, 2), (1, 3)]), ('drop', [True, False]),
        ('datatype', ['int32', 'float64']), ('descriptor', ['body weight', 'age']),
    ]
    datainfo_fields = [('separator', ['\t', ',']), ('missing_data_token', ['-999', '-99'])]

    def other(current, candidates):
        return next(c for c in candidates if not _safe_eq(c, current) or type(c) is not type(current))

    def step(field, candidates):
        def th():
            steps = m().execution_steps
            new = steps[0].replace(**{field: other(getattr(steps[0], field), candidates)})
            return m().replace(execution_steps=ExecutionSteps.create([new] + list(steps[1:])))
        return th

    def column(field, candidates):
        def th():
            di = m().datainfo
            col = di['WGT']
            return m().replace(datainfo=di.set_column(col.replace(**{field: other(getattr(col, field), candidates)})))
        return th

    def datainfo(field, candidates):
        def th():
            di = m().datainfo
            return m().replace(datainfo=di.replace(**{field: other(getattr(di, field), candidates)}))
        return th

    v = {}
    for field, candidates in step_fields:
        v[f'estimation step: {field}'] = (step(field, candidates),
                                          'estimation option' if field == 'interaction' else f'estimation step: {field}')
    for field, candidates in column_fields:
        v[f'column WGT: {field}'] = (column(field, candidates), ('pheno', f'column WGT: {field}'))
    for field, candidates in datainfo_fields:
        v[f'datainfo: {field}'] = (datainfo(field, candidates), ('pheno', f'datainfo: {field}'))
    return v


def _content_relation(ca, cb):
    """'same' / 'different' content of two variants by their content classes, or None where the property does
    not decide (same mathematical content and dataset, different description of the data columns)"""
    ma, da = ca if isinstance(ca, tuple) else (ca, None)
    mb, db = cb if isinstance(cb, tuple) else (cb, None)
    if ma != mb:
        return 'different'
    return 'same' if da == db else None


def _hash_keys(labels=None, reverse=False):
    from pharmpy.workflows.hashing import ModelHash

    out = {}
    items = list(_hash_variants().items())
    for label, (thunk, _) in (reversed(items) if reverse else items):
        if labels is not None and label not in labels:
            continue
        try:
            out[label] = str(ModelHash(thunk()))
        except Exception as e:
            out[label] = 'ERROR ' + _exc(e)
    return out


def _hash_keys_subprocess_start(seed, labels=None, reverse=False):
    root = os.path.dirname(os.path.dirname(os.path.abspath(__file__)))
    env = dict(os.environ)
    env['PYTHONPATH'] = root + os.pathsep + env.get('PYTHONPATH', '')
    repo = env.get('VERIF_REPO')
    if repo and repo != '/repo':
        # a run against a scratch copy of the repository: the fresh interpreter uses the same sources
        env['PYTHONPATH'] = os.path.join(repo, 'src') + os.pathsep + env['PYTHONPATH']
    if seed == 'random':
        env.pop('PYTHONHASHSEED', None)
        env['PYTHONHASHSEED'] = 'random'
    else:
        env['PYTHONHASHSEED'] = seed
    code = ('import warnings; warnings.filterwarnings("ignore"); import json; import contracts.b_structs as b; '
            f'print("KEYS=" + json.dumps(b._hash_keys({labels!r}, {bool(reverse)!r})))')
    return subprocess.Popen([sys.executable, '-W', 'ignore', '-c', code], cwd=root, env=env,
                            stdout=subprocess.PIPE, stderr=subprocess.PIPE, text=True)


def _hash_keys_subprocess_finish(proc):
    so, se = proc.communicate(timeout=1200)
    for line in so.splitlines():
        if line.startswith('KEYS='):
            return json.loads(line[5:])
    return {'__error__': (se or so)[-300:]}


def bounded_modelhash(tier):
    from pharmpy.workflows.hashing import ModelHash

    fid = _fid(ModelHash, '__init__')
    variants = _hash_variants()
    procs = {seed: _hash_keys_subprocess_start(seed) for seed in _SEEDS}
    reversed_proc = _hash_keys_subprocess_start('0', reverse=True)
    keys = _hash_keys()
    fails = {}

    def note(clause, detail, case):
        if clause in fails:
            fails[clause]['failing_cases'] += 1
            # every failing case of the clause, in enumeration order (tools/BOUNDED_GUIDE.md, `also`)
            if len(fails[clause]['also']) < 300:
                fails[clause]['also'].append(dict(case, clause=clause))
            return
        fails[clause] = {'fid': fid, 'clause': clause, 'detail': detail, 'case': dict(case, clause=clause),
                         'failing_cases': 1, 'also': [dict(case, clause=clause)], 'replay_fn': 'bounded_modelhash_replay'}

    cases = nontriv = 0
    labels = list(variants)
    for label in labels:
        cases += 1
        nontriv += 1
        if keys[label].startswith('ERROR') or len(keys[label]) != 43:
            note(C_H_STABLE, f'ModelHash({label}) failed: {keys[label]}', {'kind': 'stable', 'x': label})
            continue
        ok, det = _hash_stable(label)
        if not ok:
            note(C_H_STABLE, det, {'kind': 'stable', 'x': label})
    for i, a in enumerate(labels):
        for b in labels[i + 1:]:
            cases += 1
            nontriv += 1
            relation = _content_relation(variants[a][1], variants[b][1])
            same_key = keys[a] == keys[b]
            if relation == 'same' and not same_key:
                note(C_H_SAME, f'{a} and {b} have the same content but keys {keys[a]} and {keys[b]}',
                     {'kind': 'pair', 'x': a, 'y': b})
            if relation == 'different' and same_key:
                note(C_H_DIFF, f'{a} and {b} differ in content but both have key {keys[a]}',
                     {'kind': 'pair', 'x': a, 'y': b})
    for seed in _SEEDS:
        sub = _hash_keys_subprocess_finish(procs[seed])
        for label in labels:
            cases += 1
            nontriv += 1
            if sub.get(label) != keys[label]:
                note(C_H_PROC, f'{label}: in-process key {keys[label]}, fresh interpreter with PYTHONHASHSEED={seed} '
                     f'gives {sub.get(label, sub.get("__error__"))}', {'kind': 'seed', 'x': label, 'seed': seed})
    sub = _hash_keys_subprocess_finish(reversed_proc)
    for label in labels:
        cases += 1
        nontriv += 1
        if sub.get(label) != keys[label]:
            note(C_H_HIST, f'{label}: key {keys[label]} when the keys are computed in the order of the corpus, '
                 f'{sub.get(label, sub.get("__error__"))} when they are computed in the reverse order (fresh '
                 'interpreter)', {'kind': 'history', 'x': label})
    classes = sorted({c if isinstance(c, str) else ' / '.join(c) for _, c in variants.values()})
    return {
        'cases': cases,
        'nontrivial': nontriv,
        'bound': f'pheno example model and {len(labels) - 1} one-step variants in {len(classes)} content classes '
                 '(9 renamings/re-parsings/copies of pheno, 2+4 orders of setting initial estimates, ODE system '
                 'rebuilt in reverse insertion order, tool options in two dict orders, 14 single content changes, '
                 'every other field of the estimation step (17), every field of the description of the column WGT '
                 '(8) and the separator / missing data token of the datainfo changed one at a time), '
                 'all pairs; every key recomputed in 3 fresh interpreters (PYTHONHASHSEED=0, 1, random) and, in '
                 'the reverse order of the corpus, in a fourth one',
        'samples': [f'{k}: {keys[k]}' for k in labels[:3]],
        'fails': list(fails.values()),
    }


def _hash_stable(label):
    from pharmpy.workflows.hashing import ModelHash

    thunk = _hash_variants()[label][0]
    model = thunk()
    before = model.dataset.copy() if model.dataset is not None else None
    d0 = json.dumps(_norm_json(model))
    k1 = str(ModelHash(model))
    k2 = str(ModelHash(model))
    k3 = str(ModelHash(thunk()))
    if not (k1 == k2 == k3):
        return False, f'{label}: keys {k1}, {k2} (same object again), {k3} (built again)'
    if before is not None and not before.equals(model.dataset):
        return False, f'{label}: ModelHash modified the dataset of its argument'
    if json.dumps(_norm_json(model)) != d0:
        return False, f'{label}: ModelHash modified its argument'
    return True, 'ok'


def _norm_json(model):
    from pharmpy.model import Model

    try:
        return json.loads(json.dumps(Model.to_dict(model), default=repr))
    except Exception as e:
        return 'to_dict failed ' + _exc(e)


def bounded_modelhash_replay(rp):
    case = rp['case']
    variants = _hash_variants()
    if case['kind'] == 'stable':
        keys = _hash_keys([case['x']])
        if keys[case['x']].startswith('ERROR'):
            return False, keys[case['x']]
        ok, det = _hash_stable(case['x'])
        return (True, 'ok') if ok else (False, det)
    if case['kind'] == 'pair':
        a, b = case['x'], case['y']
        keys = _hash_keys([a, b])
        relation = _content_relation(variants[a][1], variants[b][1])
        if relation is not None and (relation == 'same') != (keys[a] == keys[b]):
            return False, f'{a}: {keys[a]}, {b}: {keys[b]}, content: {relation}'
        return True, 'ok'
    if case['kind'] == 'history':
        proc = _hash_keys_subprocess_start('0', reverse=True)
        keys = _hash_keys()
        sub = _hash_keys_subprocess_finish(proc)
        if sub.get(case['x']) != keys[case['x']]:
            return False, f'{case["x"]}: {keys[case["x"]]} in the order of the corpus, {sub.get(case["x"])} reversed'
        return True, 'ok'
    label, seed = case['x'], case['seed']
    proc = _hash_keys_subprocess_start(seed, [label])
    keys = _hash_keys([label])
    sub = _hash_keys_subprocess_finish(proc)
    if sub.get(label) != keys[label]:
        return False, f'{label}: in-process {keys[label]}, fresh interpreter (PYTHONHASHSEED={seed}) {sub}'
    return True, 'ok'
