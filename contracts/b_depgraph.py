"""Bounded evaluation of the PROVED contract of Statements._create_dependency_graph (contracts/statements_df.py)
on real pharmpy objects: no spurious edge, and the edge to the latest earlier assignment of every symbol read is present.  Stands in when an edit takes the function out of the subset the VC generator executes (the proof
part then answers "undecided").  Serves C10."""
import itertools
import warnings

warnings.filterwarnings('ignore')

FID = 'src/pharmpy/model/statements.py:Statements._create_dependency_graph'
CLAUSE = 'every edge (a, b) of the dependency graph has b < a with statement a reading the symbol statement b assigns, and the edge to the latest earlier assignment of every symbol read is present'
LHS = ['A', 'B', 'Y']
RHS = [('A',), ('B',), ('T',), ('A', 'B'), ('A', 'T'), ('B', 'T')]
STMTS = [(l, r) for l in LHS for r in RHS]
_objs = {}


def _obj(st):
    if st not in _objs:
        from pharmpy.basic import Expr
        from pharmpy.model import Assignment
        e = Expr.symbol(st[1][0])
        for s in st[1][1:]:
            e = e + Expr.symbol(s)
        _objs[st] = Assignment.create(Expr.symbol(st[0]), e)
    return _objs[st]


def _expected(prog):
    """all edges allowed: statement a reads the symbol statement b < a assigns"""
    return {(a, b) for a in range(len(prog)) for b in range(a) if prog[b][0] in prog[a][1]}


def _required(prog):
    """edges that must be there: b is the LATEST assignment in front of a of a symbol a reads"""
    return {(a, b) for (a, b) in _expected(prog) if not any(prog[c][0] == prog[b][0] for c in range(b + 1, a))}


def _run(prog):
    from pharmpy.model import Statements
    sts = Statements(tuple(_obj(s) for s in prog))
    try:
        got = set(sts._create_dependency_graph().edges)
    except Exception as e:  # noqa: BLE001
        return f'raised {type(e).__name__}: {e}'
    allowed, required = _expected(prog), _required(prog)
    if not (required <= got <= allowed):
        return (f'edges {sorted(got)}: missing {sorted(required - got)} (latest earlier definition of a symbol read), '
                f'spurious {sorted(got - allowed)}')
    return None


def _show(prog):
    return '; '.join(f'{l}={"+".join(r)}' for l, r in prog)


def bounded_depgraph(tier):
    maxlen = 4 if tier == 'quick' else 5
    cases = nontrivial = 0
    fails = []
    for n in range(1, maxlen + 1):
        for prog in itertools.product(STMTS, repeat=n):
            cases += 1
            if _expected(prog):
                nontrivial += 1
            bad = _run(prog)
            if bad is not None:
                fails.append((prog, bad))
                if len(fails) >= 300:
                    break
        if len(fails) >= 300:
            break
    out = []
    if fails:
        prog, bad = fails[0]
        case = [[l, list(r)] for l, r in prog]
        out.append({'fid': FID, 'clause': CLAUSE, 'detail': f'[{_show(prog)}]: {bad}', 'case': case,
                    'also': [[[l, list(r)] for l, r in p] for p, _ in fails][:300],
                    'replay_fn': 'bounded_depgraph_replay'})
    return {'cases': cases, 'nontrivial': nontrivial,
            'bound': f'all straight-line programs of 1..{maxlen} assignments with left-hand side in {LHS} and right-hand '
                     f'side a symbol or a sum of two symbols of A, B, T (T never assigned); no ODE system',
            'samples': [_show(p) for p in (STMTS[:1], (STMTS[2], STMTS[9], STMTS[3], STMTS[15]))],
            'fails': out}


def bounded_depgraph_replay(rp):
    prog = tuple((l, tuple(r)) for l, r in rp['case'])
    bad = _run(prog)
    return (False, f'[{_show(prog)}]: {bad}') if bad is not None else (True, 'ok')
