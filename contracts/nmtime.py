"""Contracts for the NM-TRAN TIME / DATE translation in src/pharmpy/modeling/data.py (serves C14: the
derivations that work on translated time - time after dose, dose expansion - start from these values).

Strings are an uninterpreted sort.  The string operations the code uses are uninterpreted functions of
their arguments (`s.split(':')`, `re.split(r'[^0-9]', s)`, `s.startswith(lit)`, `s.endswith(lit)`,
`len(s)`, `int(s)`, `float(s)`, `row[col]`), related only by: a split has at least one part and
`':' in s` exactly when `s.split(':')` has more than one.  The contract clauses use the same Python
expressions, so they are evaluated natively on real strings in the replay and in the bounded search.
The DATE forms are the ones of the NONMEM guides ($INPUT: DATE month-day-year, DAT1 day-month-year,
DAT2 year-month-day, DAT3 year-day-month; without a year DATE and DAT2 are month-day, DAT1 and DAT3
day-month; a year of one or two digits above 50 is 19xx, otherwise 20xx)."""
from pyvc.api import *

M = ModuleSpec('src/pharmpy/modeling/data.py', prop='C14')
Row = Opaque('Row')
Stamp = Opaque('Stamp', year=Int, month=Int, day=Int, hour=Int, minute=Int, second=Int, microsecond=Int,
               nanosecond=Int)
MODULES_HERE = [M]

TRUSTED = [
    'string operations (split, re.split, startswith, endswith, len, int, float) and row[col] are uninterpreted '
    'functions of their arguments; a split has at least one part and ":" in s iff s.split(":") has more than one',
    'ValueError raised by float()/int()/pd.Timestamp for malformed numbers or impossible calendar dates is allowed '
    'and not analysed',
    'Python floats are modelled as mathematical reals (the native evaluation allows 0.01 ns of rounding)',
    'the NM-TRAN DATE forms are transcribed by hand from the NONMEM guides',
]


def _native():
    import re
    try:
        import pandas as pd
        stamp = pd.Timestamp
    except ImportError:  # python3-vt has no pandas; the natives are only used by the native runner
        stamp = ()
    M.natives.update({
        're': re,
        'is_stamp': lambda r: bool(stamp) and isinstance(r, stamp),
        'is_number': lambda r: isinstance(r, float) and not isinstance(r, bool),
    })


_native()


def _symbolic():
    import z3
    from pyvc import sym
    from pyvc.symexec import Val, BUILTINS, OutOfSubset
    from pyvc.sym import TBool, TInt, TReal, TSeq, TStr

    row, stamp = Row.resolve(), Stamp.resolve()
    SS = TSeq(TStr)
    S = TStr.sort()
    colon_parts = z3.Function('split_colon', S, SS.sort())
    date_parts = z3.Function('split_nondigit', S, SS.sort())
    starts = z3.Function('startswith', S, S, z3.BoolSort())
    ends = z3.Function('endswith', S, S, z3.BoolSort())
    strlen = z3.Function('strlen', S, z3.IntSort())
    s_float = z3.Function('float_of', S, z3.RealSort())
    s_int = z3.Function('int_of', S, z3.IntSort())
    item = z3.Function('row_item', row.sort(), S, S)

    def is_str(v):
        return isinstance(v, Val) and v.ty is TStr

    def literal(v):
        """the Python string if the term is a string literal of the code, else None"""
        t = z3.simplify(v.t)
        for text, c in sym._str_literals.items():
            if z3.eq(t, c):
                return text
        return None

    def parts(ex, st, fn, s):
        t = fn(s)
        ex.ops(st).known(SS, t)
        st.facts.add(SS.f_len(t) >= 1)
        return t

    @M.intrinsic('method:split')
    def _split(ex, st, args, kwargs, node):
        if is_str(args[0]) and len(args) == 2 and z3.eq(z3.simplify(args[1].t), sym.str_lit(':')):
            return Val(SS, parts(ex, st, colon_parts, args[0].t))
        return NotImplemented

    @M.intrinsic('contains')
    def _contains(ex, st, args, kwargs, node):
        container, it = args
        if is_str(container) and is_str(it) and z3.eq(z3.simplify(it.t), sym.str_lit(':')):
            return Val(TBool, SS.f_len(parts(ex, st, colon_parts, container.t)) >= 2)
        return NotImplemented

    @M.intrinsic('re.split')
    def _resplit(ex, st, args, kwargs, node):
        if not z3.eq(z3.simplify(args[0].t), sym.str_lit('[^0-9]')):
            raise OutOfSubset('re.split with another pattern')
        return Val(SS, parts(ex, st, date_parts, args[1].t))

    @M.intrinsic('method:startswith')
    def _starts(ex, st, args, kwargs, node):
        return Val(TBool, starts(args[0].t, args[1].t)) if is_str(args[0]) else NotImplemented

    @M.intrinsic('method:endswith')
    def _ends(ex, st, args, kwargs, node):
        return Val(TBool, ends(args[0].t, args[1].t)) if is_str(args[0]) else NotImplemented

    @M.intrinsic('len')
    def _len(ex, st, args, kwargs, node):
        if is_str(args[0]):
            if literal(args[0]) is not None:
                return Val(TInt, z3.IntVal(len(literal(args[0]))))
            st.facts.add(strlen(args[0].t) >= 0)
            return Val(TInt, strlen(args[0].t))
        if isinstance(args[0], Val) and args[0].ty == SS:
            return Val(TInt, SS.f_len(args[0].t))
        return BUILTINS['len'](ex, st, args, kwargs, node, False)

    @M.intrinsic('float')
    def _float(ex, st, args, kwargs, node):
        if is_str(args[0]):
            return Val(TReal, s_float(args[0].t))
        return BUILTINS['float'](ex, st, args, kwargs, node, False)

    @M.intrinsic('int')
    def _int(ex, st, args, kwargs, node):
        if is_str(args[0]):
            lit = literal(args[0])
            if lit is not None and lit.isdigit():
                return Val(TInt, z3.IntVal(int(lit)))
            return Val(TInt, s_int(args[0].t))
        return BUILTINS['int'](ex, st, args, kwargs, node, False)

    @M.intrinsic('getitem')
    def _getitem(ex, st, args, kwargs, node):
        base, idx = args
        if isinstance(base, Val) and base.ty == row and is_str(idx):
            return Val(TStr, item(base.t, idx.t))
        return NotImplemented

    @M.intrinsic('fstring')
    def _fstring(ex, st, args, kwargs, node):
        return Val(TStr, z3.Const(sym.fresh_name('msg'), S))

    @M.intrinsic('pd.Timestamp')
    def _timestamp(ex, st, args, kwargs, node):
        t = stamp.fresh('ts')
        for k in ('year', 'month', 'day', 'hour', 'minute', 'second', 'microsecond', 'nanosecond'):
            st.facts.add(stamp.attr_fn(k)(t) == ex.to_term(kwargs[k], TInt, st))
        return Val(stamp, t)

    @M.intrinsic('is_stamp')
    def _is_stamp(ex, st, args, kwargs, node):
        return Val(TBool, z3.BoolVal(isinstance(args[0], Val) and args[0].ty == stamp))

    @M.intrinsic('is_number')
    def _is_number(ex, st, args, kwargs, node):
        return Val(TBool, z3.BoolVal(isinstance(args[0], Val) and args[0].ty in (TReal, TInt)))


try:
    import z3  # noqa: F401
    _symbolic()
except ImportError:
    pass


def HOURS(s):
    return f"((float({s}.split(':')[0]) + float({s}.split(':')[1]) / 60) if ':' in {s} else float({s}))"


M.contract('_translate_nonmem_time_value', params={'time': Str}, returns=Real,
           raises={'DatasetError': "':' in time and len(time.split(':')) != 2", 'ValueError': True},
           ensures=['result == ' + HOURS('time')],
           domain='dom_time')

T = HOURS('ser[timecol]')
DATE = 'ser[datecol]'
A = f"re.split('[^0-9]', {DATE})"
REL = f"({DATE}.startswith('-') or len({A}) == 1)"
# which part is the year / month / day in the three-part forms
Y3 = f"({A}[2] if datecol.endswith('E') or datecol.endswith('1') else {A}[0])"
M3 = f"({A}[0] if datecol.endswith('E') else {A}[1] if datecol.endswith('1') else {A}[2] if datecol.endswith('3') else {A}[1])"
D3 = f"({A}[1] if datecol.endswith('E') else {A}[0] if datecol.endswith('1') else {A}[1] if datecol.endswith('3') else {A}[2])"
YEAR3 = f"(((int({Y3}) + 1900) if int({Y3}) > 50 else (int({Y3}) + 2000)) if len({Y3}) < 3 else int({Y3}))"
# two-part forms: day first for DAT1 and DAT3, month first for DATE and DAT2
DAYFIRST = "(datecol.endswith('1') or datecol.endswith('3'))"
M2 = f"({A}[1] if {DAYFIRST} else {A}[0])"
D2 = f"({A}[0] if {DAYFIRST} else {A}[1])"
NS = ('(result.hour * 3600000000000 + result.minute * 60000000000 + result.second * 1000000000 '
      '+ result.microsecond * 1000 + result.nanosecond)')
CLOCK = (f'(0 <= result.hour and 0 <= result.minute < 60 and 0 <= result.second < 60 and '
         f'0 <= result.microsecond < 1000000 and 0 <= result.nanosecond < 1000 and '
         f'-0.01 <= {T} * 3600000000000 - {NS} < 1.01)')

c = M.contract(
    '_translate_nonmem_time_and_date_value', params={'ser': Row, 'timecol': Str, 'datecol': Str},
    requires=[f'{REL} or 0 <= {T} < 24'],
    raises={'DatasetError': f"(':' in ser[timecol] and len(ser[timecol].split(':')) != 2) or (not {REL} and len({A}) > 3)",
            'ValueError': True},
    ensures=[
        # a relative day number: hours since day 0
        f'(is_number(result) and result == {T} + float({DATE}) * 24) if {REL} else True',
        # calendar dates always give a time stamp (never None)
        f'{REL} or is_stamp(result)',
        f'((result.year == 2001 and result.month == int({M2}) and result.day == int({D2})) '
        f'if is_stamp(result) else False) if (not {REL} and len({A}) == 2) else True',
        f'((result.year == {YEAR3} and result.month == int({M3}) and result.day == int({D3})) '
        f'if is_stamp(result) else False) if (not {REL} and len({A}) == 3) else True',
        f'({CLOCK} if is_stamp(result) else False) if not {REL} else True',
    ],
    domain='dom_time_date')


def dom_time(tier):
    for t in ['0', '1.5', '10:30', '0:05', '23:59', '1:2:3', ':', '7', '12:00']:
        yield {'time': t}


def dom_time_date(tier):
    times = ['0', '10:30', '1.5', '23:59', '0:00', '7.123456789']
    dates = ['3', '-2', '0', '3/12', '12-3', '31/1', '3/12/99', '3/12/1999', '99/3/12', '12/31/05', '2001-03-04',
             '51/1/2', '50/1/2', '1/2/3/4']
    if tier == 'thorough':
        times += ['13:07', '2.25', '9:59']
        dates += ['1-2', '28.2', '2/28/2001', '1/2/51', '1/2/50', '1/2/7', '2020/12/31']
    for t in times:
        for d in dates:
            for col in ['DATE', 'DAT1', 'DAT2', 'DAT3', 'XDAT']:
                yield {'ser': {'TIME': t, col: d}, 'timecol': 'TIME', 'datecol': col}
