"""Contracts for the statement lookups in src/pharmpy/model/statements.py (serves C10)."""
from pyvc.api import *

M = ModuleSpec('src/pharmpy/model/statements.py', prop='C10')
Sym = Opaque('Sym')
Stmt = Opaque('Stmt', is_assignment=Bool, symbol=Sym)

TRUSTED = ['statements are opaque values with `is_assignment` (isinstance(.., Assignment)) and `symbol`; '
           'symbol == is an equivalence modelled by z3 equality; iterating a Statements object yields its '
           'statements in order']


def _symbolic():
    import ast
    import z3
    from pyvc.symexec import Val, BoolV, OutOfSubset
    from pyvc.sym import TBool

    @M.intrinsic('isinstance')
    def _isinstance(ex, st, args, kwargs, node):
        cls = node.args[1]
        name = cls.id if isinstance(cls, ast.Name) else ast.unparse(cls)
        v = args[0]
        if name == 'Assignment' and isinstance(v, Val) and v.ty.key() == 'Stmt':
            return Val(TBool, v.ty.attr_fn('is_assignment')(v.t))
        if name == 'str' and isinstance(v, Val) and v.ty.key() == 'Sym':
            return BoolV(False)  # the contract's `symbol` is already an Expr
        raise OutOfSubset(f'isinstance(.., {name})')


try:
    import z3  # noqa: F401
    _symbolic()
except ImportError:
    pass

IS = '(s.is_assignment and s.symbol == symbol)'
M.contract(
    'Statements._lookup_last_assignment',
    params={'self': Seq(Stmt), 'symbol': Sym},
    locals={'ind': Option(Int), 'assignment': Option(Stmt)},
    ensures=[
        # no assignment of the symbol: (None, None)
        f'implies(not any({IS} for s in self), result[0] is None and result[1] is None)',
        f'implies(any({IS} for s in self), result[0] is not None and result[1] is not None)',
        # otherwise the LAST one (later assignments shadow earlier ones)
        'implies(result[0] is not None, 0 <= val(result[0]) < len(self))',
        'implies(result[0] is not None, self[val(result[0])].is_assignment and self[val(result[0])].symbol == symbol)',
        'implies(result[0] is not None, all(not (self[q].is_assignment and self[q].symbol == symbol)'
        '                                   for q in range(val(result[0]) + 1, len(self))))',
        'implies(result[0] is not None, val(result[1]) == self[val(result[0])])',
    ],
    loops=[Loop(counter='k', inv=[
        f'implies(not any(self[q].is_assignment and self[q].symbol == symbol for q in range(k)), ind is None and assignment is None)',
        f'implies(any(self[q].is_assignment and self[q].symbol == symbol for q in range(k)), ind is not None and assignment is not None)',
        'implies(ind is not None, 0 <= val(ind) < k and self[val(ind)].is_assignment and self[val(ind)].symbol == symbol'
        '        and val(assignment) == self[val(ind)]'
        '        and all(not (self[q].is_assignment and self[q].symbol == symbol) for q in range(val(ind) + 1, k)))',
    ])],
)
