"""Contracts for the statement lookups in src/pharmpy/model/statements.py (serves C10)."""
from pyvc.api import *

M = ModuleSpec('src/pharmpy/model/statements.py', prop='C10')
Sym = Opaque('Sym')
SymSet = Opaque('SymSet')
Stmt = Opaque('Stmt', is_assignment=Bool, symbol=Sym, is_ode=Bool, rhs_symbols=SymSet, amounts=SymSet)
ExprT = Opaque('ExprT')

TRUSTED = ['statements are opaque values with `is_assignment` (isinstance(.., Assignment)), `is_ode` '
           '(isinstance(.., CompartmentalSystem)), `symbol`, `rhs_symbols`, `amounts`; symbol == is an equivalence '
           'modelled by z3 equality; iterating a Statements object yields its statements in order; '
           'Statements(seq) / self._statements / self[a:b] are the sequence itself resp. its slice',
           'ASSUMED constructor law: Assignment(symbol, expression) is an assignment of `symbol`; Expr(x) of an '
           'expression is x',
           'LIBRARY MODEL list_reverseiterator: reversed(lst) yields the CURRENT lst[n0-1-k] at step k (n0 = length '
           'when the iterator was created); staying inside the list is a generated obligation',
           'LIBRARY MODEL lazy combinators: next(map(f, filter(g, it)), d) is f of the first item of `it` satisfying g, '
           'or d when there is none',
           'symbol sets (rhs_symbols, amounts) are abstract: `in` and isdisjoint are uninterpreted predicates, '
           'set(x) of such a set is the set; networkx DiGraph is modelled by its edge set (add_edge only)']


def _symbolic():
    import ast
    import z3
    from pyvc.symexec import Val, BoolV, OutOfSubset, PyTuple, NONE
    from pyvc.sym import TBool, TSeq, TInt, TOption
    from pyvc import sym

    @M.intrinsic('isinstance')
    def _isinstance(ex, st, args, kwargs, node):
        cls = node.args[1]
        name = cls.id if isinstance(cls, ast.Name) else ast.unparse(cls)
        v = args[0]
        if name == 'Assignment' and isinstance(v, Val) and v.ty.key() == 'Stmt':
            return Val(TBool, v.ty.attr_fn('is_assignment')(v.t))
        if name == 'CompartmentalSystem' and isinstance(v, Val) and v.ty.key() == 'Stmt':
            return Val(TBool, v.ty.attr_fn('is_ode')(v.t))
        if name == 'CompartmentalSystem' and isinstance(v, Val) and isinstance(v.ty, TOption) \
                and v.ty.inner.key() == 'Stmt':
            return Val(TBool, z3.And(v.ty.is_some(v.t), v.ty.inner.attr_fn('is_ode')(v.ty.val(v.t))))
        if name == 'str' and isinstance(v, Val) and v.ty.key() == 'Sym':
            return BoolV(False)  # the contract's `symbol` is already an Expr
        raise OutOfSubset(f'isinstance(.., {name})')

    stmt, symt, exprt = Stmt.resolve(), Sym.resolve(), ExprT.resolve()
    MK = z3.Function('mk_assign', symt.sort(), exprt.sort(), stmt.sort())

    def _mk(ex, st, args, kwargs, node):
        # Assignment(symbol, expression): an assignment statement of that symbol (ASSUMED constructor law)
        t = MK(args[0].t, args[1].t)
        st.facts.add(z3.And(stmt.attr_fn('is_assignment')(t), stmt.attr_fn('symbol')(t) == args[0].t))
        return Val(stmt, t)

    M.intrinsics['Assignment'] = _mk
    M.intrinsics['mk_assign'] = _mk
    # Expr(x) of a value that is already an expression / symbol is that value; Statements(list) is the
    # sequence of the list's elements; self._statements is the sequence self stands for
    M.intrinsics['Expr'] = lambda ex, st, args, kwargs, node: args[0]
    def _mkstatements(ex, st, args, kwargs, node):
        if not args:
            ty = TSeq(stmt)
            return Val(ty, ex.ops(st).empty(ty))
        return ex.as_seq(args[0], st)

    M.intrinsics['Statements'] = _mkstatements

    @M.intrinsic('attr:_statements')
    def _stmts(ex, st, args, kwargs, node):
        return args[0] if isinstance(args[0], Val) and isinstance(args[0].ty, TSeq) else NotImplemented

    # ---- symbol sets are abstract: membership and disjointness are uninterpreted predicates; the dependency
    # graph is the set of its edges (pairs of statement indices)
    symset = SymSet.resolve()
    MEM = z3.Function('symset_member', symset.sort(), symt.sort(), z3.BoolSort())
    DISJ = z3.Function('symset_disjoint', symset.sort(), symset.sort(), z3.BoolSort())
    from pyvc.symexec import MSet
    from pyvc.sym import TTuple
    EDGE = TTuple(TInt, TInt)

    @M.intrinsic('contains')
    def _contains(ex, st, args, kwargs, node):
        c, x = args
        if isinstance(c, Val) and c.ty.key() == 'SymSet' and isinstance(x, Val) and x.ty.key() == 'Sym':
            return Val(TBool, MEM(c.t, x.t))
        return NotImplemented

    M.intrinsics['set'] = lambda ex, st, a, kw, n: a[0]          # set(statement.amounts): the same abstract set
    M.intrinsics['method:isdisjoint'] = lambda ex, st, a, kw, n: Val(TBool, DISJ(a[0].t, a[1].t))
    M.intrinsics['symset_disjoint'] = lambda ex, st, a, kw, n: Val(TBool, DISJ(a[0].t, a[1].t))
    M.intrinsics['nx.DiGraph'] = lambda ex, st, a, kw, n: MSet(EDGE, z3.K(EDGE.sort(), z3.BoolVal(False)))

    @M.intrinsic('method:add_edge')
    def _add_edge(ex, st, args, kwargs, node):
        g = args[0]
        e = ex.to_term(PyTuple([args[1], args[2]]), EDGE, st)
        g.t = z3.Store(g.t, e, True)
        return NONE

    # ---- library model: next(map(f, filter(g, it)), default) -- the image under f of the FIRST item of `it`
    # that satisfies g, or `default` when there is none (lazy combinators; f and g are the real lambdas of
    # the source, applied symbolically to the generic item)
    class _Lazy:
        def __init__(self, kind, fn, src):
            self.kind, self.fn, self.src = kind, fn, src

    M.intrinsics['filter'] = lambda ex, st, a, kw, n: _Lazy('filter', a[0], a[1])
    M.intrinsics['map'] = lambda ex, st, a, kw, n: _Lazy('map', a[0], a[1])

    @M.intrinsic('next')
    def _next(ex, st, args, kwargs, node):
        m = args[0]
        if not (isinstance(m, _Lazy) and m.kind == 'map' and isinstance(m.src, _Lazy) and m.src.kind == 'filter'
                and len(args) == 2):
            raise OutOfSubset('next() of anything but map(f, filter(g, iterable)) with a default')
        f, g = m.fn, m.src.fn
        src = ex.as_iter(m.src.src, st)
        if src is None:
            raise OutOfSubset('filter over unsupported iterable')

        def pred(k):
            return ex.truthy(ex.call(g, [src.item(k, st)], {}, st, node, None), st)

        j = z3.Int(sym.fresh_name('first'))
        k = z3.Int(sym.fresh_name('k'))
        found = z3.Bool(sym.fresh_name('found'))
        st.facts.add(z3.Implies(found, z3.And(0 <= j, j < src.n, pred(j),
                                              z3.ForAll([k], z3.Implies(z3.And(0 <= k, k < j), z3.Not(pred(k)))))))
        st.facts.add(z3.Implies(z3.Not(found),
                                z3.ForAll([k], z3.Implies(z3.And(0 <= k, k < src.n), z3.Not(pred(k))))))
        hit = ex.to_term(ex.call(f, [src.item(j, st)], {}, st, node, None), TInt, st)
        return Val(TInt, z3.If(found, hit, ex.to_term(args[1], TInt, st)))

    def _via_contract(q):
        def h(ex, st, args, kwargs, node):
            return ex.call_contract(ex.registry[M.path + ':Statements.' + q], list(args), kwargs, st, node, None)
        return h

    M.intrinsics['method:_get_ode_system_index'] = _via_contract('_get_ode_system_index')

    @M.intrinsic('method:_lookup_last_assignment')
    def _lla(ex, st, args, kwargs, node):
        # a call from another method of Statements is replaced by the callee's contract
        c = ex.registry[M.path + ':Statements._lookup_last_assignment']
        return ex.call_contract(c, list(args), kwargs, st, node, None)


try:
    import z3  # noqa: F401
    _symbolic()
except ImportError:
    pass

IS = '(s.is_assignment and s.symbol == symbol)'
M.contract(
    'Statements._lookup_last_assignment',
    params={'self': Seq(Stmt), 'symbol': Sym},
    locals={'ind': Option(Int), 'assignment': Option(Stmt)},
    returns=Tuple(Option(Int), Option(Stmt)),
    ensures=[
        # no assignment of the symbol: (None, None)
        f'implies(not any({IS} for s in self), result[0] is None and result[1] is None)',
        f'implies(any({IS} for s in self), result[0] is not None and result[1] is not None)',
        # otherwise the LAST one (later assignments shadow earlier ones)
        'implies(result[0] is not None, 0 <= val(result[0]) < len(self))',
        'implies(result[0] is not None, self[val(result[0])].is_assignment and self[val(result[0])].symbol == symbol)',
        'implies(result[0] is not None, all(not (self[q].is_assignment and self[q].symbol == symbol)'
        '                                   for q in range(val(result[0]) + 1, len(self))))',
        'implies(result[0] is not None, val(result[1]) == self[val(result[0])])',
    ],
    loops=[Loop(counter='k', inv=[
        f'implies(not any(self[q].is_assignment and self[q].symbol == symbol for q in range(k)), ind is None and assignment is None)',
        f'implies(any(self[q].is_assignment and self[q].symbol == symbol for q in range(k)), ind is not None and assignment is not None)',
        'implies(ind is not None, 0 <= val(ind) < k and self[val(ind)].is_assignment and self[val(ind)].symbol == symbol'
        '        and val(assignment) == self[val(ind)]'
        '        and all(not (self[q].is_assignment and self[q].symbol == symbol) for q in range(val(ind) + 1, k)))',
    ])],
)

# the public lookups: composition over the contract of _lookup_last_assignment (the callee's body is
# not visible here, so a change of the tuple component taken or of the callee's meaning fails one of these)
M.contract(
    'Statements.find_assignment',
    params={'self': Seq(Stmt), 'symbol': Sym},
    returns=Option(Stmt),
    ensures=[
        f'implies(not any({IS} for s in self), result is None)',
        f'implies(any({IS} for s in self), result is not None)',
        'implies(result is not None, any(self[p].is_assignment and self[p].symbol == symbol and val(result) == self[p]'
        '    and all(not (self[q].is_assignment and self[q].symbol == symbol) for q in range(p + 1, len(self)))'
        '    for p in range(len(self))))',
    ],
)
M.contract(
    'Statements.find_assignment_index',
    params={'self': Seq(Stmt), 'symbol': Sym},
    returns=Option(Int),
    ensures=[
        f'implies(not any({IS} for s in self), result is None)',
        f'implies(any({IS} for s in self), result is not None)',
        'implies(result is not None, 0 <= val(result) < len(self))',
        'implies(result is not None, self[val(result)].is_assignment and self[val(result)].symbol == symbol)',
        'implies(result is not None, all(not (self[q].is_assignment and self[q].symbol == symbol)'
        '                                for q in range(val(result) + 1, len(self))))',
    ],
)


@M.native
def mk_assign(symbol, expression):
    from pharmpy.model import Assignment
    return Assignment(symbol, expression)


# reassign: walks the list backwards with a live reversed() iterator while deleting from it.
# Proved for all statement lists: no index error and the iterator never leaves the list; nothing changes
# when the symbol is not assigned; otherwise the result has EXACTLY ONE assignment of the symbol, it is
# Assignment(symbol, expression), and everything before the first assignment of the symbol is untouched.
# NOT proved here (bounded check b_stmts): the other statements keep their relative order.
ISN = '(new[q].is_assignment and new[q].symbol == symbol)'
ISS = '(self[q].is_assignment and self[q].symbol == symbol)'
NEW = 'mk_assign(symbol, expression)'
M.contract(
    'Statements.reassign',
    params={'self': Seq(Stmt), 'symbol': Sym, 'expression': ExprT},
    returns=Seq(Stmt),
    ensures=[
        f'implies(not any({IS} for s in self), result == self)',
        'len(result) <= len(self)',
        # every assignment of the symbol in the result is the new one ...
        f'all(not (result[q].is_assignment and result[q].symbol == symbol) or result[q] == {NEW} for q in range(len(result)))',
        # ... there is at most one ...
        'all(all(r <= q or not (result[q].is_assignment and result[q].symbol == symbol and result[r].is_assignment and result[r].symbol == symbol)'
        '        for r in range(len(result))) for q in range(len(result)))',
        # ... and at least one if the symbol was assigned before
        f'implies(any({IS} for s in self), any(result[q].is_assignment and result[q].symbol == symbol for q in range(len(result))))',
        # statements before the first assignment of the symbol keep their place
        'all(implies(not any(self[r].is_assignment and self[r].symbol == symbol for r in range(q + 1)), q < len(result) and result[q] == self[q]) for q in range(len(self)))',
        # statements after the last assignment of the symbol keep their distance from the end
        'all(implies(not any(atend(self, e).is_assignment and atend(self, e).symbol == symbol for e in range(d + 1)), d < len(result) and atend(result, d) == atend(self, d)) for d in range(len(self)))',
    ],
    # (ranges start at 0 with an explicit lower guard: index terms stay free of arithmetic, so they can
    # serve as quantifier patterns)
    loops=[Loop(counter='k', hints=['i == len(self) - 1 - k', 'stat == self[i]', 'stat == new[i]'], inv=[
        'len(self) - k <= len(new) <= len(self)',
        'all(new[q] == self[q] for q in range(len(self) - k))',
        f'implies(last, all(q < len(self) - k or not {ISS} for q in range(len(self))))',
        f'implies(not last, any(q >= len(self) - k and {ISS} for q in range(len(self))))',
        'implies(last, len(new) == len(self) and all(new[q] == self[q] for q in range(len(self))))',
        f'all(q < len(self) - k or not {ISN} or new[q] == {NEW} for q in range(len(new)))',
        'all(all(q < len(self) - k or r <= q or not (new[q].is_assignment and new[q].symbol == symbol and new[r].is_assignment and new[r].symbol == symbol)'
        '        for r in range(len(new))) for q in range(len(new)))',
        # (counted from the END of the list: a deletion in front of it does not move the witness)
        'implies(not last, any(d < len(new) - (len(self) - k) and atend(new, d).is_assignment and atend(new, d).symbol == symbol for d in range(len(new))))',
        'all(implies(not any(self[r].is_assignment and self[r].symbol == symbol for r in range(q + 1)), q < len(new) and new[q] == self[q]) for q in range(len(self)))',
        'all(implies(not any(atend(self, e).is_assignment and atend(self, e).symbol == symbol for e in range(d + 1)), d < len(new) and atend(new, d) == atend(self, d)) for d in range(len(self)))',
    ])],
)


# ---- the ODE system splits the statement list --------------------------------------------------------
FIRST_ODE = ('(0 <= result < len(self) and self[result].is_ode'
             ' and all(not self[q].is_ode for q in range(result)))')
M.contract(
    'Statements._get_ode_system_index',
    params={'self': Seq(Stmt)},
    returns=Int,
    ensures=[
        'implies(not any(s.is_ode for s in self), result == -1)',
        f'implies(any(s.is_ode for s in self), {FIRST_ODE})',
        f'result == -1 or {FIRST_ODE}',
    ],
)
M.contract(
    'Statements.ode_system',
    params={'self': Seq(Stmt)},
    returns=Option(Stmt),
    ensures=[
        'implies(not any(s.is_ode for s in self), result is None)',
        'implies(any(s.is_ode for s in self), result is not None)',
        # the FIRST compartmental system of the list
        'implies(result is not None, any(self[p] == val(result) and self[p].is_ode and all(not self[q].is_ode for q in range(p))'
        '                                for p in range(len(self))))',
    ],
)
M.contract(
    'Statements.before_odes',
    params={'self': Seq(Stmt)},
    returns=Seq(Stmt),
    ensures=[
        'implies(not any(s.is_ode for s in self), result == self)',
        'all(not result[q].is_ode for q in range(len(result)))',
        'len(result) <= len(self) and all(result[q] == self[q] for q in range(len(result)))',
        # nothing in front of the ODE system is left out
        'implies(len(result) < len(self), self[len(result)].is_ode)',
    ],
)
AFTER = ['all(atend(result, d) == atend(self, d) for d in range(len(result)))',
         'implies(any(s.is_ode for s in self), len(result) < len(self) and atend(self, len(result)).is_ode'
         '        and all(not self[q].is_ode for q in range(len(self) - 1 - len(result))))']
M.contract(
    'Statements.after_odes',
    params={'self': Seq(Stmt)},
    returns=Seq(Stmt),
    ensures=['implies(not any(s.is_ode for s in self), len(result) == 0)'] + AFTER,
)
M.contract(
    'Statements.error',
    params={'self': Seq(Stmt)},
    returns=Seq(Stmt),
    ensures=['implies(not any(s.is_ode for s in self), result == self)'] + AFTER,
)


# ---- the dependency graph: statement a points at EVERY earlier statement b it reads (an earlier assignment
# of a symbol on a's right-hand side, or an earlier ODE system one of whose amounts a reads) -- for all
# statement lists; symbol sets abstract
USES = ('(self[b].symbol in self[a].rhs_symbols if self[b].is_assignment'
        ' else not symset_disjoint(self[a].rhs_symbols, self[b].amounts))')
# (stated as a sandwich so that a graph linking only the LATEST earlier definition -- equally sound for the
# analyses built on it -- satisfies the contract too: no spurious edge, and no missing edge to the latest
# earlier assignment of a symbol read, nor to an earlier ODE system read)
LATEST = ('(not self[b].is_assignment or not any(c > b and self[c].is_assignment and self[c].symbol == self[b].symbol'
          ' for c in range(a)))')


def _sandwich(g, cond_a, a='a'):
    u = USES.replace('self[a]', f'self[{a}]')
    lt = LATEST.replace('range(a)', f'range({a})')
    rng = 'for b in range(len(self))' + ('' if a != 'a' else ') for a in range(len(self))')
    pre = 'all(' if a == 'a' else ''
    return [f'{pre}all(implies(({a}, b) in {g}, {cond_a} and b < {a} and {u}) {rng})',
            f'{pre}all(implies({cond_a} and b < {a} and {u} and {lt}, ({a}, b) in {g}) {rng})']


M.contract(
    'Statements._create_dependency_graph',
    params={'self': Seq(Stmt)},
    requires=['all(s.is_assignment or s.is_ode for s in self)'],
    ensures=_sandwich('result', 'True'),
    loops=[
        Loop(counter='k0', inv=_sandwich('graph', 'a > len(self) - 1 - k0')),
        Loop(counter='k1', inv=[
            f'all(all(implies(a != i and (a, b) in graph, a > i and b < a and {USES}) for b in range(len(self))) for a in range(len(self)))',
            f'all(all(implies(a > i and b < a and {USES} and {LATEST}, (a, b) in graph) for b in range(len(self))) for a in range(len(self)))',
        ] + _sandwich('graph', 'b > i - 1 - k1', a='i')),
    ],
)
