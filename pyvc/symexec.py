"""pyvc.symexec -- path-by-path forward symbolic execution of real Python functions (read with
`ast` from the repository on every run) against sidecar contracts, producing proof obligations.

What of Python's semantics the encoding assumes is documented in DESIGN.md section 1.1 and in the
evidence `assumptions` of every check.
"""
import ast
import copy
import hashlib

import z3

from . import sym
from .api import Contract, Loop, parse_expr
from .sym import TBool, TInt, TNone, TOpaque, TOption, TReal, TSeq, TStr, TTuple


Ty_ = sym.Ty


class OutOfSubset(Exception):
    pass


class ContractStale(Exception):
    pass


# ------------------------------------------------------------------------------------------------
# values
# ------------------------------------------------------------------------------------------------
class Val:
    __slots__ = ('ty', 't')

    def __init__(self, ty, t):
        self.ty, self.t = ty, t

    def __repr__(self):
        return f'Val({self.ty},{self.t})'


class MList:
    """Mutable list reference (identity = the Python object; content = current term)."""

    def __init__(self, ty, t):
        self.ty, self.t = ty, t


class MSet:
    """Mutable set: characteristic array elem -> Bool."""

    def __init__(self, elem, t):
        self.elem, self.t = elem, t


class PyTuple:
    """Python-level tuple of values of statically known arity."""

    def __init__(self, items):
        self.items = list(items)


class IterSrc:
    """Abstract iterable: length term and k -> item."""

    def __init__(self, n, item, ty=None, seqs=()):
        self.n, self.item, self.ty = n, item, ty
        self.seqs = list(seqs)  # underlying sequences walked front to back with index k


class Closure:
    def __init__(self, node, env, name=None):
        self.node, self.env, self.name = node, env, name


class Builtin:
    def __init__(self, name):
        self.name = name


class ModuleRef:
    def __init__(self, name):
        self.name = name


class ExcClass:
    def __init__(self, name):
        self.name = name


class ExcVal:
    def __init__(self, name):
        self.name = name


def IntV(n):
    return Val(TInt, z3.IntVal(n))


def BoolV(b):
    return Val(TBool, z3.BoolVal(b))


NONE = Val(TNone, None)


class State:
    def __init__(self):
        self.env = {}
        self.old = {}
        self.facts = sym.Facts()
        self.pc = []
        self.out = None
        self.guards = []
        self.path = []
        self.notified = False  # used by monitor front end
        self.mon = {}  # front-end specific ghost state (terms / mutable model objects)
        self.pending = []  # (exception name, condition, lineno) raised by callees in this statement

    def clone(self):
        n = State()
        memo = {}

        def cp(v):
            if isinstance(v, (MList, MSet, CounterVal, LockVal, MDict, MMatrix)):
                if id(v) not in memo:
                    memo[id(v)] = copy.copy(v)
                return memo[id(v)]
            if isinstance(v, PyTuple):
                return PyTuple([cp(i) for i in v.items])
            if isinstance(v, SObj):
                if id(v) not in memo:
                    o = SObj(v.cls, {})
                    memo[id(v)] = o
                    o.fields = {k: cp(x) for k, x in v.fields.items()}
                return memo[id(v)]
            return v

        n.env = {k: cp(v) for k, v in self.env.items()}
        n.old = self.old
        n.facts = self.facts.clone()
        n.pc = list(self.pc)
        n.out = cp(self.out) if self.out is not None else None
        n.guards = list(self.guards)
        n.path = list(self.path)
        n.notified = self.notified
        n.mon = {k: (dict(v) if isinstance(v, dict) else cp(v)) for k, v in self.mon.items()}
        n.pending = list(self.pending)
        return n

    def assume(self, f):
        self.pc.append(f)

    def hyps(self):
        return self.pc + self.facts.facts


class SObj:
    """Instance of a class under contract: record of fields (mutable reference)."""

    def __init__(self, cls, fields):
        self.cls, self.fields = cls, fields


class Obligation:
    def __init__(self, fid, kind, label, hyps, goal, lineno, path, inputs, prop):
        self.fid, self.kind, self.label = fid, kind, label
        self.hyps, self.goal = hyps, goal
        self.lineno, self.path, self.inputs, self.prop = lineno, path, inputs, prop
        self.oid = None
        self.clause = None

    def formula(self):
        return z3.And(*self.hyps, z3.Not(self.goal)) if self.hyps else z3.Not(self.goal)


# ------------------------------------------------------------------------------------------------
# executor
# ------------------------------------------------------------------------------------------------
MUTATORS = {'append', 'add', 'pop', 'extend', 'insert', 'remove', 'clear', 'update', 'sort',
            'discard', 'reverse'}


def assigned_names(nodes):
    names, mutated, yields = set(), set(), False
    for n in nodes:
        for x in ast.walk(n):
            if isinstance(x, ast.Name) and isinstance(x.ctx, (ast.Store, ast.Del)):
                names.add(x.id)
            elif isinstance(x, (ast.Yield, ast.YieldFrom)):
                yields = True
            elif isinstance(x, ast.Call) and isinstance(x.func, ast.Attribute) \
                    and x.func.attr in MUTATORS:
                b = _base_name(x.func.value)
                if b:
                    mutated.add(b)
            elif isinstance(x, (ast.Assign, ast.AugAssign, ast.Delete)):
                tgts = x.targets if isinstance(x, (ast.Assign, ast.Delete)) else [x.target]
                for t in tgts:
                    if isinstance(t, (ast.Subscript, ast.Attribute)):
                        b = _base_name(t)
                        if b:
                            mutated.add(b)
    return names, mutated, yields


def _base_name(n):
    while isinstance(n, (ast.Subscript, ast.Attribute)):
        n = n.value
    return n.id if isinstance(n, ast.Name) else None


def loops_in_order(fnode):
    res = []

    def visit(n):
        for c in ast.iter_child_nodes(n):
            if isinstance(c, (ast.FunctionDef, ast.Lambda, ast.ClassDef)) and c is not fnode:
                continue
            if isinstance(c, (ast.For, ast.While)):
                res.append(c)
            visit(c)

    visit(fnode)
    return res


class Exec:
    def __init__(self, repo, module_spec, registry, feas_timeout_ms=300):
        self.repo = repo
        self.ms = module_spec
        self.registry = registry
        self.obligations = []
        self.feas_timeout_ms = feas_timeout_ms
        self.src = open(f'{repo}/{module_spec.path}').read()
        self.tree = ast.parse(self.src)
        self.notes = []
        self.paths = 0
        self._funcs = {}
        self._literals = {}
        for n in self.tree.body:
            if isinstance(n, ast.Assign) and len(n.targets) == 1 and isinstance(n.targets[0], ast.Name):
                try:
                    self._literals[n.targets[0].id] = (ast.literal_eval(n.value), n.value)
                except (ValueError, SyntaxError):
                    pass
        self._index(self.tree.body, '')

    def _index(self, body, prefix):
        for n in body:
            if isinstance(n, (ast.FunctionDef,)):
                self._funcs[prefix + n.name] = n
            elif isinstance(n, ast.ClassDef):
                self._index(n.body, prefix + n.name + '.')
            elif isinstance(n, (ast.If, ast.Try)):
                # module-level conditional definitions (e.g. platform branches): index all arms
                for sub in ast.walk(n):
                    if isinstance(sub, ast.FunctionDef) and sub.name not in self._funcs:
                        self._funcs[prefix + sub.name] = sub

    def func_source_hash(self, qualname):
        n = self._funcs.get(qualname)
        if n is None:
            return None
        return hashlib.sha256(ast.dump(n).encode()).hexdigest()[:16]

    # ------------------------------------------------------------------------------------------
    def ops(self, st):
        return sym.SeqOps(st.facts, list(self.ms.folds.values()), self, st)

    def fresh_val(self, ty, st, prefix='v'):
        if isinstance(ty, tuple) and ty[0] == 'set':
            return MSet(ty[1], z3.Const(sym.fresh_name(prefix), z3.ArraySort(ty[1].sort(), z3.BoolSort())))
        if ty is TNone:
            return NONE
        t = ty.fresh(prefix)
        if isinstance(ty, TSeq):
            self.ops(st).known(ty, t)
        return Val(ty, t)

    # ------------------------------------------------------------------------------------------
    def verify(self, c: Contract):
        fnode = self._funcs.get(c.qualname)
        if fnode is None:
            raise ContractStale(f'{c.fid}: function not found in source')
        self.c = c
        self.fnode = fnode
        sym.reset_names()
        self.loops = loops_in_order(fnode)
        if len(c.loops) != len(self.loops):
            raise ContractStale(
                f'{c.fid}: contract specifies {len(c.loops)} loops, source has {len(self.loops)}')
        st = State()
        argnames = [a.arg for a in fnode.args.args + fnode.args.kwonlyargs]
        self.inputs = {}
        for name in argnames:
            if name not in c.params:
                if name == 'self' and 'self' not in c.params:
                    continue
                raise ContractStale(f'{c.fid}: parameter {name} has no declared type')
            ty = c.params[name].resolve()
            v = self.fresh_val(ty, st, 'in_' + name)
            if isinstance(v, Val) and isinstance(ty, TSeq) and ty.kind == 'list' \
                    and name in getattr(c, 'mutable_params', ()):
                v = MList(ty, v.t)
            st.env[name] = v
            self.inputs[name] = v
        st.old = dict((k, self._snapshot(v)) for k, v in st.env.items())
        self.entry_old = st.old
        for r in c.requires:
            f = self.spec_bool(r, st)
            st.assume(f)
        if c.generator:
            oty = c.returns.resolve()
            st.out = MList(oty, self.ops(st).empty(oty))
        self.entry_measure = None
        if c.decreases:
            self.entry_measure = self.spec_val(c.decreases, st).t
        nob = len(self.obligations)
        results = self.exec_block(fnode.body, st)
        for s, sig in results:
            self.finish(s, sig, fnode)
        return self.obligations[nob:]

    def _snapshot(self, v):
        if isinstance(v, MList):
            return Val(v.ty, v.t)
        if isinstance(v, MSet):
            return MSet(v.elem, v.t)
        if isinstance(v, MMatrix):
            return MMatrix(v.rows, v.cols, v.t)
        if isinstance(v, MDict):
            return MDict(v.kty, v.comps, v.keys, v.arrs)
        return v

    def finish(self, st, sig, fnode):
        c = self.c
        self.paths += 1
        if sig[0] == 'raise':
            exc = sig[1]
            if exc in c.raises:
                cond = c.raises[exc]
                if cond is not True:
                    g = self.spec_bool(cond, st, use_old=True)
                    self.oblige(st, 'raises', f'raise {exc} only when: {cond}', g, sig[2], cond)
            else:
                self.oblige(st, 'safety', f'unexpected exception {exc}', z3.BoolVal(False), sig[2],
                            f'no {exc}')
            return
        if sig[0] in ('break', 'continue'):
            raise OutOfSubset('break/continue outside loop')
        rv = sig[1] if sig[0] == 'return' else NONE
        if c.generator:
            rv = Val(st.out.ty, st.out.t)
        env2 = dict(st.env)
        env2['result'] = rv
        st2 = st
        saved_env = st.env
        st.env = env2
        try:
            for h in c.exit_hints:
                try:
                    g = self.spec_bool(h, st, use_old=True)
                except (OutOfSubset, KeyError, AttributeError):
                    continue  # hint mentions locals that do not exist on this path
                self.oblige(st, 'hint', f'exit hint {h}', g, fnode.lineno, h)
                st.assume(g)
            for exc, cond in c.raises.items():
                if cond is not True and getattr(c, 'raises_iff', True):
                    g = z3.Not(self.spec_bool(cond, st, use_old=True))
                    self.oblige(st, 'raises', f'returns normally only when not: {cond}', g,
                                fnode.lineno, 'not(' + cond + ')')
            for i, e in enumerate(c.ensures):
                g = self.spec_bool(e, st, use_old=True)
                self.oblige(st, 'post', f'ensures[{i}] {e}', g, fnode.lineno, e, keep=True)
        finally:
            st.env = saved_env

    # ------------------------------------------------------------------------------------------
    def oblige(self, st, kind, label, goal, lineno, clause=None, keep=False):
        hyps = list(st.hyps())
        g = goal
        if st.guards:
            g = z3.Implies(z3.And(*st.guards), g)
        if sym._bound_stack:
            g = z3.ForAll(list(sym._bound_stack), g)
        sg = z3.simplify(g)
        if z3.is_true(sg) and not keep:
            return
        ob = Obligation(self.c.fid, kind, label, hyps, g, lineno, list(st.path), self.inputs,
                        self.c.prop)
        ob.clause = clause
        ob.old = self.entry_old
        self.obligations.append(ob)

    def safety(self, st, cond, label, node, spec=False):
        """Emit a safety obligation for a partial operation, then assume it."""
        if spec:
            return
        sc = z3.simplify(cond)
        if z3.is_true(sc):
            return
        self.oblige(st, 'safety', label, cond, getattr(node, 'lineno', 0), label)
        if not st.guards and not sym._bound_stack:
            st.assume(cond)

    def feasible(self, st):
        if self.feas_timeout_ms <= 0:
            return True
        s = z3.Solver()
        s.set('timeout', self.feas_timeout_ms)
        s.add(*st.pc)
        s.add(*[f for f in st.facts.facts if not z3.is_quantifier(f)])
        return s.check() != z3.unsat

    # ------------------------------------------------------------------------------------------
    # spec evaluation
    # ------------------------------------------------------------------------------------------
    def spec_val(self, src, st, use_old=False):
        node = parse_expr(src) if isinstance(src, str) else src
        defs = getattr(self.c, 'defs', None)
        if defs:
            node = _Macro(defs).visit(node)
        saved = getattr(self, '_spec_mode', False)
        self._spec_mode = True
        try:
            return self.eval(node, st, spec=True)
        finally:
            self._spec_mode = saved

    def spec_bool(self, src, st, use_old=False):
        v = self.spec_val(src, st, use_old)
        return self.truthy(v, st)

    # ------------------------------------------------------------------------------------------
    # statements
    # ------------------------------------------------------------------------------------------
    def exec_block(self, stmts, st):
        """Returns list of (state, signal). signal: ('next',) | ('break',) | ('continue',) |
        ('return', val) | ('raise', excname, lineno)"""
        states = [(st, ('next',))]
        for s in stmts:
            nxt = []
            for cur, sig in states:
                if sig[0] != 'next':
                    nxt.append((cur, sig))
                else:
                    nxt.extend(self.exec_stmt(s, cur))
            states = nxt
        return states

    def exec_stmt(self, s, st):
        m = getattr(self, 'st_' + type(s).__name__, None)
        if m is None:
            raise OutOfSubset(f'statement {type(s).__name__} at line {s.lineno}')
        simple = isinstance(s, (ast.Assign, ast.AnnAssign, ast.AugAssign, ast.Expr, ast.Return))
        env_before = dict(st.env) if simple else None
        results = m(s, st)
        out = []
        for cur, sig in results:
            if cur.pending:
                if not simple:
                    raise OutOfSubset(f'callee may raise inside a compound statement head (line {s.lineno})')
                pend, cur.pending = cur.pending, []
                for exc, cond, ln in pend:
                    # the callee raised: the statement has no effect, the exception propagates
                    r = cur.clone()
                    r.pending = []
                    r.env = dict(env_before)
                    r.assume(cond)
                    r.path.append(f'L{ln}:{exc}')
                    if self.feasible(r):
                        out.append((r, ('raise', exc, ln)))
                    cur.assume(z3.Not(cond))
            out.append((cur, sig))
        return out

    def st_Pass(self, s, st):
        return [(st, ('next',))]

    def st_Expr(self, s, st):
        if isinstance(s.value, ast.Constant):
            return [(st, ('next',))]  # docstring
        if isinstance(s.value, ast.Yield):
            v = self.eval(s.value.value, st) if s.value.value is not None else NONE
            self.do_yield(st, v)
            return [(st, ('next',))]
        if isinstance(s.value, ast.YieldFrom):
            v = self.eval(s.value.value, st)
            self.do_yield_from(st, v)
            return [(st, ('next',))]
        self.eval(s.value, st)
        return [(st, ('next',))]

    def do_yield(self, st, v):
        if st.out is None:
            raise OutOfSubset('yield in a function not declared generator')
        ety = st.out.ty.elem
        st.out.t = self.ops(st).build(st.out.ty, st.out.t, self.to_term(v, ety, st))

    def do_yield_from(self, st, v):
        it = self.as_seq(v, st)
        if it is None:
            raise OutOfSubset('yield from non-sequence')
        ops = self.ops(st)
        if z3.eq(st.out.t, st.out.ty.f_empty):
            st.out.t = it.t
        else:
            st.out.t = ops.concat(st.out.ty, st.out.t, it.t)

    def st_Return(self, s, st):
        v = self.eval(s.value, st) if s.value is not None else NONE
        return [(st, ('return', v))]

    def st_Assign(self, s, st):
        v = self.eval(s.value, st)
        if isinstance(v, PyDict) and not v.items and len(s.targets) == 1 \
                and isinstance(s.targets[0], ast.Name) and s.targets[0].id in self.c.locals:
            ty = self.c.locals[s.targets[0].id].resolve()
            v = MDict(ty[1], [ty[2]], z3.K(ty[1].sort(), z3.BoolVal(False)),
                      [z3.Const(sym.fresh_name('dinit'), z3.ArraySort(ty[1].sort(), ty[2].sort()))])
        if isinstance(v, (EmptyList, EmptySet)) and len(s.targets) == 1 \
                and isinstance(s.targets[0], ast.Name) and s.targets[0].id in self.c.locals:
            ty = self.c.locals[s.targets[0].id].resolve()
            if isinstance(v, EmptyList):
                v = MList(ty, self.ops(st).empty(ty))
            else:
                v = MSet(ty[1], z3.K(ty[1].sort(), z3.BoolVal(False)))
        for t in s.targets:
            self.assign(t, v, st)
        return [(st, ('next',))]

    def st_AnnAssign(self, s, st):
        if s.value is not None:
            v = self.eval(s.value, st)
            self.assign(s.target, v, st)
        return [(st, ('next',))]

    def st_AugAssign(self, s, st):
        load = copy.copy(s.target)
        load.ctx = ast.Load()
        cur = self.eval(load, st)
        rhs = self.eval(s.value, st)
        if isinstance(cur, MList) and isinstance(s.op, ast.Add):
            it = self.as_seq(rhs, st)
            cur.t = self.ops(st).concat(cur.ty, cur.t, it.t)
            return [(st, ('next',))]
        v = self.binop(s.op, cur, rhs, st, s)
        self.assign(s.target, v, st)
        return [(st, ('next',))]

    def assign(self, target, v, st):
        if isinstance(target, ast.Name):
            lt = self.c.locals.get(target.id) if getattr(self, 'c', None) is not None else None
            if lt is not None and not isinstance(v, (MList, MSet, EmptyList, EmptySet)):
                ty = lt.resolve()
                if isinstance(ty, Ty_) and not (isinstance(v, Val) and v.ty == ty):
                    v = self.wrap(ty, self.to_term(v, ty, st), st)
            st.env[target.id] = v
        elif isinstance(target, (ast.Tuple, ast.List)):
            items = self.unpack(v, len(target.elts), st, target)
            for t, i in zip(target.elts, items):
                self.assign(t, i, st)
        elif isinstance(target, ast.Subscript):
            self.store_subscript(target, v, st)
        elif isinstance(target, ast.Attribute):
            obj = self.eval(target.value, st)
            if isinstance(obj, SObj):
                obj.fields[target.attr] = v
            elif target.attr in getattr(self.ms, 'ignored_attr_stores', ()):
                pass
            else:
                raise OutOfSubset(f'attribute store on {type(obj).__name__} line {target.lineno}')
        else:
            raise OutOfSubset(f'assignment target {type(target).__name__}')

    def unpack(self, v, n, st, node):
        if isinstance(v, OptVal):
            # unpacking dict.get() result: only reached where it is not None
            self.safety(st, v.present, 'unpacking a value that may be None', node)
            v = v.value
        if isinstance(v, PyTuple):
            if len(v.items) != n:
                raise OutOfSubset('tuple arity mismatch')
            return v.items
        if isinstance(v, Val) and isinstance(v.ty, TTuple):
            if len(v.ty.items) != n:
                raise OutOfSubset('tuple arity mismatch')
            return [self.wrap(v.ty.items[i], v.ty.get(v.t, i), st) for i in range(n)]
        if isinstance(v, (Val, MList)) and isinstance(v.ty, TSeq):
            self.safety(st, v.ty.f_len(v.t) == n, f'unpack of {n} values', node)
            return [self.wrap(v.ty.elem, v.ty.f_at(v.t, z3.IntVal(i)), st) for i in range(n)]
        raise OutOfSubset(f'cannot unpack {v}')

    def wrap(self, ty, t, st):
        if isinstance(ty, TSeq):
            self.ops(st).known(ty, t)
        if ty is TNone:
            return NONE
        return Val(ty, t)

    def store_subscript(self, target, v, st):
        # supports name[i] = v and name[i][j] = v on lists (value semantics for the inner rows)
        chain = []
        n = target
        while isinstance(n, ast.Subscript):
            chain.append(n.slice)
            n = n.value
        base = self.eval(n, st)
        chain.reverse()
        if isinstance(base, MMatrix) and len(chain) == 1:
            idx = self.eval(chain[0], st)
            if isinstance(idx, PyTuple) and len(idx.items) == 2:
                i, j = [self.to_term(x, TInt, st) for x in idx.items]
                self.safety(st, z3.And(0 <= i, i < base.rows, 0 <= j, j < base.cols),
                            f'matrix index in range at line {target.lineno}', target)
                base.set(i, j, self.to_term(v, TReal, st))
                return
        if isinstance(base, CounterVal) and len(chain) == 1:
            k = self.to_term(self.eval(chain[0], st), base.kty, st)
            base.set(k, self.to_term(v, TInt, st))
            return
        if isinstance(base, MDict) and len(chain) == 1:
            base.setitem(self, st, self.eval(chain[0], st), v)
            return
        if isinstance(base, MSet) or not isinstance(base, MList):
            raise OutOfSubset(f'subscript store on {type(base).__name__} line {target.lineno}')
        ops = self.ops(st)

        def upd(ty, t, idxs):
            i = self.eval(idxs[0], st)
            it = self.index_term(ty, t, i, st, target)
            if len(idxs) == 1:
                return ops.update(ty, t, it, self.to_term(v, ty.elem, st))
            inner_ty = ty.elem
            if not isinstance(inner_ty, TSeq):
                raise OutOfSubset('nested subscript store on non-sequence')
            inner = ty.f_at(t, it)
            ops.known(inner_ty, inner)
            return ops.update(ty, t, it, upd(inner_ty, inner, idxs[1:]))

        base.t = upd(base.ty, base.t, chain)

    def index_term(self, ty, t, i, st, node, spec=False):
        """normalised index (Python negative indices) + bounds safety obligation"""
        it = self.to_term(i, TInt, st)
        n = ty.f_len(t)
        sit = z3.simplify(it)
        self.safety(st, z3.And(-n <= it, it < n), f'index in range at line {getattr(node, "lineno", 0)}',
                    node, spec)
        if z3.is_int_value(sit):
            if sit.as_long() >= 0:
                return sit
            return n + sit
        if spec:
            # contract expressions index with non-negative indices (or negative literals)
            return it
        if self._nonneg(st, it):
            return it
        return z3.If(it < 0, it + n, it)

    def _nonneg(self, st, it):
        """cheap entailment check `path condition => it >= 0` (keeps `if` out of index terms)"""
        s = z3.Solver()
        s.set('timeout', 200)
        s.add(*[f for f in st.pc if not z3.is_quantifier(f)])
        s.add(*st.guards)
        s.add(it < 0)
        return s.check() == z3.unsat

    def st_If(self, s, st):
        c = self.truthy(self.eval(s.test, st), st)
        sc = z3.simplify(c)
        if z3.is_true(sc):
            return self.exec_block(s.body, st)
        if z3.is_false(sc):
            return self.exec_block(s.orelse, st)
        res = []
        s1 = st.clone()
        s1.assume(c)
        s1.path.append(f'L{s.lineno}:T')
        if self.feasible(s1):
            res.extend(self.exec_block(s.body, s1))
        s2 = st
        s2.assume(z3.Not(c))
        s2.path.append(f'L{s.lineno}:F')
        if self.feasible(s2):
            res.extend(self.exec_block(s.orelse, s2))
        return res

    def st_Assert(self, s, st):
        c = self.truthy(self.eval(s.test, st), st)
        if 'AssertionError' in self.c.raises:
            res = []
            bad = st.clone()
            bad.assume(z3.Not(c))
            bad.path.append(f'L{s.lineno}:assert-fails')
            if self.feasible(bad):
                res.append((bad, ('raise', 'AssertionError', s.lineno)))
            st.assume(c)
            res.append((st, ('next',)))
            return res
        self.safety(st, c, f'assert at line {s.lineno}', s)
        return [(st, ('next',))]

    def st_Raise(self, s, st):
        name = 'Exception'
        if s.exc is not None:
            e = s.exc
            if isinstance(e, ast.Call):
                e = e.func
            if isinstance(e, ast.Name):
                v = st.env.get(e.id)
                if isinstance(v, ExcVal):
                    name = v.name
                else:
                    name = e.id
            elif isinstance(e, ast.Attribute):
                name = e.attr
        return [(st, ('raise', name, s.lineno))]

    def st_Try(self, s, st):
        res = []
        for cur, sig in self.exec_block(s.body, st):
            if sig[0] == 'raise':
                handled = False
                for h in s.handlers:
                    names = self._handler_names(h)
                    if names is None or sig[1] in names or 'Exception' in names:
                        if h.name:
                            cur.env[h.name] = ExcVal(sig[1])
                        res.extend(self.exec_block(h.body, cur))
                        handled = True
                        break
                if not handled:
                    res.append((cur, sig))
            elif sig[0] == 'next':
                res.extend(self.exec_block(s.orelse, cur))
            else:
                res.append((cur, sig))
        if s.finalbody:
            out = []
            for cur, sig in res:
                for c2, sig2 in self.exec_block(s.finalbody, cur):
                    out.append((c2, sig if sig2[0] == 'next' else sig2))
            res = out
        return res

    def _handler_names(self, h):
        if h.type is None:
            return None
        if isinstance(h.type, ast.Name):
            return {h.type.id}
        if isinstance(h.type, ast.Tuple):
            return {e.id if isinstance(e, ast.Name) else e.attr for e in h.type.elts}
        if isinstance(h.type, ast.Attribute):
            return {h.type.attr}
        return None

    def st_With(self, s, st):
        """`with lock:` on a modelled lock object; other context managers via the 'with' intrinsic"""
        if len(s.items) != 1:
            raise OutOfSubset('with several items')
        item = s.items[0]
        cm = self.eval(item.context_expr, st)
        h = self.ms.intrinsics.get('with')
        if h is None:
            raise OutOfSubset(f'with statement at line {s.lineno}')
        return h(self, st, cm, item, s)

    def st_Break(self, s, st):
        return [(st, ('break',))]

    def st_Continue(self, s, st):
        return [(st, ('continue',))]

    def st_FunctionDef(self, s, st):
        st.env[s.name] = Closure(s, st.env, s.name)
        return [(st, ('next',))]

    def st_Delete(self, s, st):
        for t in s.targets:
            if isinstance(t, ast.Name):
                st.env.pop(t.id, None)
            else:
                self.delete_target(t, st)
        return [(st, ('next',))]

    def delete_target(self, t, st):
        if isinstance(t, ast.Subscript):
            base = self.eval(t.value, st)
            if isinstance(base, CounterVal):
                k = self.to_term(self.eval(t.slice, st), base.kty, st)
                self.safety(st, base.has(k), f'del of a present key at line {t.lineno}', t)
                base.delete(k)
                return
            if isinstance(base, MDict):
                base.delitem(self, st, self.eval(t.slice, st), t)
                return
            if isinstance(base, MList) and not isinstance(t.slice, ast.Slice):
                # del lst[i]: the elements above i move down by one (the index must be provably in
                # 0 <= i < len: negative indices are not modelled, an obligation that fails instead)
                i = self.to_term(self.eval(t.slice, st), TInt, st)
                ln = base.ty.f_len(base.t)
                self.safety(st, z3.And(0 <= i, i < ln), f'del of an index in range at line {t.lineno}', t)
                o = self.ops(st)
                t0 = base.t
                base.t = o.concat(base.ty, o.slice(base.ty, base.t, z3.IntVal(0), i),
                                  o.slice(base.ty, base.t, i + 1, ln))
                # consequence of the pointwise concat/slice facts, stated from the end of the list (usable by
                # E-matching in both directions): the elements behind i keep their distance from the end
                atend_define(st, base.ty)
                f, d = atend_fn(base.ty), z3.Int(sym.fresh_name('d'))
                st.facts.add(base.ty.f_len(base.t) == ln - 1)
                st.facts.add(z3.ForAll([d], z3.Implies(z3.And(0 <= d, d < ln - 1 - i), f(base.t, d) == f(t0, d)),
                                       patterns=[f(base.t, d), f(t0, d)]))
                return
        raise OutOfSubset(f'del of {type(t).__name__} at line {t.lineno}')

    # loops ------------------------------------------------------------------------------------
    def loop_spec(self, node) -> Loop:
        for i, l in enumerate(self.loops):
            if l is node:
                return self.c.loops[i], i
        raise OutOfSubset('loop in nested function')

    def havoc(self, st, node, spec: Loop):
        names, mutated, yields = assigned_names(node.body + getattr(node, 'orelse', []))
        for nme in sorted(names | mutated):
            cur = st.env.get(nme)
            if nme in spec.types:
                ty = spec.types[nme].resolve()
                if isinstance(cur, (MList, MSet)):
                    pass
                else:
                    cur = self.fresh_val(ty, st, 'h_' + nme)
                    st.env[nme] = cur
                    continue
            if cur is None:
                st.env.pop(nme, None)
                continue
            if isinstance(cur, MList):
                cur.t = cur.ty.fresh('h_' + nme)
                self.ops(st).known(cur.ty, cur.t)
            elif isinstance(cur, MSet):
                cur.t = z3.Const(sym.fresh_name('h_' + nme), cur.t.sort())
            elif isinstance(cur, MMatrix):
                cur.t = z3.Const(sym.fresh_name('h_' + nme), cur.t.sort())
            elif isinstance(cur, MDict):
                f = MDict.fresh(cur.kty, cur.comps, 'h_' + nme)
                cur.keys, cur.arrs = f.keys, f.arrs
            elif isinstance(cur, CounterVal):
                f = CounterVal.fresh(cur.kty, 'h_' + nme)
                cur.cnt, cur.keys = f.cnt, f.keys
            elif isinstance(cur, Val):
                st.env[nme] = self.fresh_val(cur.ty, st, 'h_' + nme)
            elif isinstance(cur, PyTuple):
                st.env[nme] = PyTuple([self.fresh_val(i.ty, st, 'h_' + nme) for i in cur.items])
            elif isinstance(cur, SObj):
                raise OutOfSubset(f'havoc of object {nme}')
            else:
                # closures etc. reassigned in a loop
                st.env.pop(nme, None)
        if yields and st.out is not None:
            st.out.t = st.out.ty.fresh('h_out')
            self.ops(st).known(st.out.ty, st.out.t)

    def check_inv(self, st, spec, li, what, node):
        for i, inv in enumerate(spec.inv):
            g = self.spec_bool(inv, st)
            self.oblige(st, 'loop-' + what, f'loop[{li}] invariant[{i}] {what}: {inv}', g,
                        node.lineno, inv)

    def assume_inv(self, st, spec):
        for inv in spec.inv:
            st.assume(self.spec_bool(inv, st))

    def do_hints(self, st, hints, li, node):
        for h in hints:
            g = self.spec_bool(h, st)
            self.oblige(st, 'hint', f'loop[{li}] hint: {h}', g, node.lineno, h)
            st.assume(g)

    def st_For(self, s, st):
        spec, li = self.loop_spec(s)
        # a list mutated in place by the body while the loop walks it: iterators are live views, the
        # snapshot model of as_iter would be wrong -- only reversed(NAME) has a live model
        _, mutated_, _ = assigned_names(s.body)
        # (len(NAME) is evaluated once, before the loop starts)
        live_ok = {id(c.args[0]) for c in ast.walk(s.iter)
                   if isinstance(c, ast.Call) and isinstance(c.func, ast.Name) and c.func.id in ('reversed', 'len')
                   and len(c.args) == 1 and isinstance(c.args[0], ast.Name)}
        for x in ast.walk(s.iter):
            if isinstance(x, ast.Name) and x.id in mutated_ and isinstance(st.env.get(x.id), MList) \
                    and id(x) not in live_ok:
                raise OutOfSubset(f'loop at line {s.lineno} mutates the list {x.id} it iterates over')
        src = self.as_iter(self.eval(s.iter, st), st)
        if src is None:
            raise OutOfSubset(f'for over unsupported iterable at line {s.lineno}')
        kname = spec.counter
        self.loop_ghosts(st, spec)
        if spec.seq:
            sq = self.as_seq(self.eval(s.iter, st), st) if getattr(src, 'seq', None) is None \
                else Val(src.seq[0], src.seq[1])
            if sq is None:
                raise OutOfSubset('Loop.seq on a non-sequence iterable')
            st.env[spec.seq] = sq
            src = self.as_iter(sq, st)
        # init
        st.env[kname] = IntV(0)
        self.check_inv(st, spec, li, 'init', s)
        # arbitrary iteration
        self.havoc(st, s, spec)
        k = z3.Int(sym.fresh_name('k_' + kname))
        st.env[kname] = Val(TInt, k)
        st.assume(k >= 0)
        st.assume(k <= src.n)
        st.assume(src.n >= 0)
        self.assume_inv(st, spec)
        res = []
        # --- iteration branch
        it = st.clone()
        it.assume(k < src.n)
        it.path.append(f'L{s.lineno}:iter')
        if self.feasible(it):
            self.assign(s.target, src.item(k, it), it)
            if self.ms.folds:
                for sty, stt in src.seqs:
                    self.ops(it).prefix_step(sty, stt, k)
            self.do_hints(it, spec.hints, li, s)
            for cur, sig in self.exec_block(s.body, it):
                if sig[0] in ('next', 'continue'):
                    self.do_hints(cur, spec.end_hints, li, s)
                    cur.env[kname] = Val(TInt, k + 1)
                    self.check_inv(cur, spec, li, 'preserved', s)
                    self.paths += 1
                elif sig[0] == 'break':
                    cur.path.append(f'L{s.lineno}:break')
                    res.append((cur, ('next',)))
                else:
                    res.append((cur, sig))
        # --- exit branch
        ex = st
        ex.assume(k == src.n)
        ex.path.append(f'L{s.lineno}:exit')
        if self.feasible(ex):
            if getattr(src, 'seq', None) is not None and self.ms.folds:
                o = self.ops(ex)
                full = o.slice(src.seq[0], src.seq[1], z3.IntVal(0), src.seq[0].f_len(src.seq[1]))
                ex.facts.add(full == src.seq[1])
            self.do_hints(ex, spec.exit_hints, li, s)
            res.extend(self.exec_block(s.orelse, ex))
        return res

    def loop_ghosts(self, st, spec):
        for g, src in spec.ghost.items():
            v = self.spec_val(src, st)
            st.env[g] = self._snapshot(v)

    def st_While(self, s, st):
        spec, li = self.loop_spec(s)
        self.loop_ghosts(st, spec)
        self.check_inv(st, spec, li, 'init', s)
        self.havoc(st, s, spec)
        self.assume_inv(st, spec)
        c = self.truthy(self.eval(s.test, st), st)
        res = []
        it = st.clone()
        it.assume(c)
        it.path.append(f'L{s.lineno}:iter')
        if self.feasible(it):
            m0 = self.spec_val(spec.decreases, it).t if spec.decreases else None
            self.do_hints(it, spec.hints, li, s)
            for cur, sig in self.exec_block(s.body, it):
                if sig[0] in ('next', 'continue'):
                    self.do_hints(cur, spec.end_hints, li, s)
                    self.check_inv(cur, spec, li, 'preserved', s)
                    if m0 is not None:
                        m1 = self.spec_val(spec.decreases, cur).t
                        self.oblige(cur, 'decreases', f'loop[{li}] variant decreases: {spec.decreases}',
                                    z3.And(m0 >= 0, m1 < m0), s.lineno, spec.decreases)
                    self.paths += 1
                elif sig[0] == 'break':
                    res.append((cur, ('next',)))
                else:
                    res.append((cur, sig))
        ex = st
        ex.assume(z3.Not(c))
        ex.path.append(f'L{s.lineno}:exit')
        if self.feasible(ex):
            self.do_hints(ex, spec.exit_hints, li, s)
            res.extend(self.exec_block(s.orelse, ex))
        return res

    # ------------------------------------------------------------------------------------------
    # expressions
    # ------------------------------------------------------------------------------------------
    def eval(self, n, st, spec=False):
        m = getattr(self, 'ex_' + type(n).__name__, None)
        if m is None:
            raise OutOfSubset(f'expression {type(n).__name__} at line {getattr(n, "lineno", "?")}')
        return m(n, st, spec)

    def ex_Constant(self, n, st, spec):
        v = n.value
        if v is None:
            return NONE
        if isinstance(v, bool):
            return BoolV(v)
        if isinstance(v, int):
            return IntV(v)
        if isinstance(v, float):
            return Val(TReal, z3.RealVal(repr(v)))
        if isinstance(v, str):
            if len(v) == 1 and getattr(self.ms, 'char_strings', False):
                return Val(TInt, z3.IntVal(ord(v)))  # strings are sequences of character codes
            return Val(TStr, sym.str_lit(v))
        raise OutOfSubset(f'constant {v!r}')

    def ex_Name(self, n, st, spec):
        if n.id in st.env:
            return st.env[n.id]
        if n.id == 'result' and spec and st.out is not None:
            return Val(st.out.ty, st.out.t)
        if spec and n.id in self.ms.folds:
            return self.ms.folds[n.id]
        if n.id in getattr(self.ms, 'py_consts', {}):
            return self.ms.py_consts[n.id](self, st)
        if n.id in self._literals and n.id in getattr(self.ms, 'use_module_literals', ()):
            val, node = self._literals[n.id]
            if isinstance(val, (set, frozenset, tuple, list)):
                elts = node.elts
                return PyTuple([self.eval(e, st, spec) for e in elts])
            return self.eval(node, st, spec)
        if n.id in self.ms.consts:
            ty = self.ms.consts[n.id].resolve()
            return Val(ty, z3.Const('glob_' + n.id, ty.sort()))
        if n.id in self.ms.aliases or n.id in self.ms.intrinsics:
            return Builtin(n.id)
        if n.id in BUILTINS:
            return Builtin(n.id)
        if n.id in self._funcs:
            return Closure(self._funcs[n.id], None, n.id)
        if n.id in EXC_NAMES or n.id.endswith('Error'):
            return ExcClass(n.id)
        return ModuleRef(n.id)

    def ex_Tuple(self, n, st, spec):
        if any(isinstance(e, ast.Starred) for e in n.elts):
            # (a, *xs, b) -> a sequence (tuple kind); element type taken from the starred part
            parts = []
            ety = None
            for e in n.elts:
                if isinstance(e, ast.Starred):
                    sq = self.as_seq(self.eval(e.value, st, spec), st)
                    if sq is None:
                        raise OutOfSubset('starred non-sequence')
                    ety = sq.ty.elem
                    parts.append(('seq', sq))
                else:
                    parts.append(('one', self.eval(e, st, spec)))
            ty = TSeq(ety, 'tuple')
            ops = self.ops(st)
            t = ops.empty(ty)
            for kind, v in parts:
                if kind == 'one':
                    t = ops.build(ty, t, self.to_term(v, ety, st))
                else:
                    t = ops.concat(ty, t, v.t)
            return Val(ty, t)
        return PyTuple([self.eval(e, st, spec) for e in n.elts])

    def ex_List(self, n, st, spec):
        items = [self.eval(e, st, spec) for e in n.elts]
        return self.make_list(items, st, spec, n)

    def make_list(self, items, st, spec, node=None, elem_ty=None):
        ops = self.ops(st)
        if not items:
            if elem_ty is None:
                return EmptyList()
            ty = TSeq(elem_ty)
            t = ops.empty(ty)
        else:
            if elem_ty is None:
                elem_ty = self.type_of(items[0])
            ty = TSeq(elem_ty)
            t = ops.empty(ty)
            for i in items:
                t = ops.build(ty, t, self.to_term(i, elem_ty, st))
        return Val(ty, t) if spec else MList(ty, t)

    def type_of(self, v):
        if isinstance(v, (Val, MList)):
            return v.ty
        if isinstance(v, PyTuple):
            return TTuple(*[self.type_of(i) for i in v.items])
        raise OutOfSubset(f'no static type for {v}')

    def to_term(self, v, ty, st):
        """coerce a value to a z3 term of type ty"""
        if hasattr(v, 'as_term'):
            return v.as_term(self, st, ty)
        if isinstance(v, EmptyList):
            if isinstance(ty, TSeq):
                return self.ops(st).empty(ty)
            raise OutOfSubset('empty list where non-sequence expected')
        if isinstance(v, MList):
            v = Val(v.ty, v.t)
        if isinstance(v, PyTuple):
            if isinstance(ty, TTuple) and len(ty.items) == len(v.items):
                return ty.mk(*[self.to_term(i, t, st) for i, t in zip(v.items, ty.items)])
            if isinstance(ty, TSeq):
                ops = self.ops(st)
                t = ops.empty(ty)
                for i in v.items:
                    t = ops.build(ty, t, self.to_term(i, ty.elem, st))
                return t
            raise OutOfSubset(f'tuple where {ty} expected')
        if isinstance(v, Val):
            if v.ty == ty:
                return v.t
            if ty is TReal and v.ty is TInt:
                return z3.ToReal(v.t)
            if ty is TInt and v.ty is TBool:
                return z3.If(v.t, 1, 0)
            if isinstance(ty, TOption):
                if v.ty is TNone:
                    return ty.none()
                if v.ty == ty.inner:
                    return ty.some(v.t)
                if ty.inner is TReal and v.ty is TInt:
                    return ty.some(z3.ToReal(v.t))
            if isinstance(ty, TSeq) and isinstance(v.ty, TSeq) and v.ty.key() == ty.key():
                return v.t
            if isinstance(v.ty, TOption) and v.ty.inner == ty:
                # an optional value used where the plain value is needed: it must not be None
                self.safety(st, z3.Not(v.ty.is_none(v.t)), f'value of type {v.ty.key()} is not None where '
                            f'{ty.key()} is needed', None, getattr(self, '_spec_mode', False))
                return v.ty.val(v.t)
            if ty is TBool:
                return self.truthy(v, st)
        raise OutOfSubset(f'cannot coerce {v} to {ty}')

    def truthy(self, v, st):
        if isinstance(v, EmptyList):
            return z3.BoolVal(False)
        if isinstance(v, (MList,)) or (isinstance(v, Val) and isinstance(v.ty, TSeq)):
            return v.ty.f_len(v.t) > 0
        if isinstance(v, PyTuple):
            return z3.BoolVal(len(v.items) > 0)
        if isinstance(v, Val):
            if v.ty is TBool:
                return v.t
            if v.ty is TInt:
                return v.t != 0
            if v.ty is TReal:
                return v.t != 0
            if v.ty is TNone:
                return z3.BoolVal(False)
            if isinstance(v.ty, TOption):
                inner = self.truthy(Val(v.ty.inner, v.ty.val(v.t)), st) \
                    if not isinstance(v.ty.inner, TOpaque) else z3.BoolVal(True)
                return z3.And(z3.Not(v.ty.is_none(v.t)), inner)
            if isinstance(v.ty, TOpaque):
                if 'bool' in v.ty.attrs:
                    return v.ty.attr_fn('bool')(v.t)
                return z3.BoolVal(True)
        if isinstance(v, CounterVal):
            return v.nonempty()
        if isinstance(v, OptVal):
            return v.present
        if isinstance(v, SObj):
            return z3.BoolVal(True)
        raise OutOfSubset(f'truthiness of {v}')

    def as_seq(self, v, st):
        """value -> Val with TSeq type (snapshot), or None"""
        if hasattr(v, 'as_seq_val'):
            return v.as_seq_val(self, st)
        if isinstance(v, MList):
            return Val(v.ty, v.t)
        if isinstance(v, Val) and isinstance(v.ty, TSeq):
            return v
        if isinstance(v, IterSrc):
            if v.ty is None:
                return None
            ty = TSeq(v.ty)
            ops = self.ops(st)
            t = ops.tabulate(ty, v.n, lambda k: self.to_term(v.item(k, st), v.ty, st))
            return Val(ty, t)
        if isinstance(v, PyTuple) and v.items:
            ety = self.type_of(v.items[0])
            ty = TSeq(ety, 'tuple')
            return Val(ty, self.to_term(v, ty, st))
        return None

    def as_iter(self, v, st):
        if isinstance(v, IterSrc):
            return v
        if isinstance(v, (MList, Val)) and isinstance(v.ty, TSeq):
            ty, t = v.ty, v.t
            src = IterSrc(ty.f_len(t), lambda k, s, ty=ty, t=t: self.wrap(ty.elem, ty.f_at(t, k), s), ty.elem)
            src.seq = (ty, t)
            src.seqs = [(ty, t)]
            return src
        if isinstance(v, PyTuple):
            return None
        return None

    def ex_IfExp(self, n, st, spec):
        c = self.truthy(self.eval(n.test, st, spec), st)
        sc = z3.simplify(c)
        if z3.is_true(sc):
            return self.eval(n.body, st, spec)
        if z3.is_false(sc):
            return self.eval(n.orelse, st, spec)
        st.guards.append(c)
        a = self.eval(n.body, st, spec)
        st.guards.pop()
        st.guards.append(z3.Not(c))
        b = self.eval(n.orelse, st, spec)
        st.guards.pop()
        return self.ite(c, a, b, st)

    def ite(self, c, a, b, st):
        if isinstance(a, EmptyList) and not isinstance(b, EmptyList):
            a = Val(self.type_of(b), self.to_term(a, self.type_of(b), st))
        if isinstance(b, EmptyList) and not isinstance(a, EmptyList):
            b = Val(self.type_of(a), self.to_term(b, self.type_of(a), st))
        ta, tb = self.type_of(a), self.type_of(b)
        if ta != tb:
            if {ta, tb} == {TInt, TReal}:
                ta = tb = TReal
            elif ta is TNone and not isinstance(tb, TOption):
                ta = tb = TOption(tb)
            elif tb is TNone and not isinstance(ta, TOption):
                ta = tb = TOption(ta)
            elif isinstance(ta, TOption) and (tb is TNone or tb == ta.inner):
                tb = ta
            elif isinstance(tb, TOption) and (ta is TNone or ta == tb.inner):
                ta = tb
            else:
                raise OutOfSubset(f'conditional of different types {ta} / {tb}')
        return self.wrap(ta, z3.If(c, self.to_term(a, ta, st), self.to_term(b, ta, st)), st)

    def ex_BoolOp(self, n, st, spec):
        # short-circuit: later operands are evaluated under the guard of the earlier ones
        is_and = isinstance(n.op, ast.And)
        vals = []
        pushed = 0
        for e in n.values:
            v = self.eval(e, st, spec)
            vals.append(v)
            c = self.truthy(v, st)
            st.guards.append(c if is_and else z3.Not(c))
            pushed += 1
        for _ in range(pushed):
            st.guards.pop()
        if all(isinstance(v, Val) and v.ty is TBool for v in vals):
            ts = [v.t for v in vals]
            return Val(TBool, z3.And(*ts) if is_and else z3.Or(*ts))
        tys = set()
        for v in vals:
            try:
                tys.add(self.type_of(v).key())
            except OutOfSubset:
                tys.add(type(v).__name__)
        if len(tys) > 1:
            # operands of different types: only the truth value is modelled (the result of such
            # an expression is used as a condition in the code under contract)
            ts = [self.truthy(v, st) for v in vals]
            return Val(TBool, z3.And(*ts) if is_and else z3.Or(*ts))
        # value-returning form: a and b -> b if a else a
        res = vals[-1]
        for v in reversed(vals[:-1]):
            c = self.truthy(v, st)
            res = self.ite(c, res, v, st) if is_and else self.ite(c, v, res, st)
        return res

    def ex_UnaryOp(self, n, st, spec):
        v = self.eval(n.operand, st, spec)
        if isinstance(n.op, ast.Not):
            return Val(TBool, z3.Not(self.truthy(v, st)))
        if isinstance(n.op, ast.USub):
            if isinstance(v, Val) and v.ty in (TInt, TReal):
                return Val(v.ty, -v.t)
            if isinstance(v, Val) and v.ty is TBool:
                return Val(TInt, -z3.If(v.t, 1, 0))
        if isinstance(n.op, ast.UAdd) and isinstance(v, Val) and v.ty in (TInt, TReal):
            return v
        h = self.ms.intrinsics.get('unary:' + type(n.op).__name__)
        if h:
            return h(self, st, [v], {}, n)
        raise OutOfSubset(f'unary op on {v}')

    def ex_BinOp(self, n, st, spec):
        a = self.eval(n.left, st, spec)
        b = self.eval(n.right, st, spec)
        return self.binop(n.op, a, b, st, n, spec)

    def num(self, v):
        if isinstance(v, Val):
            if v.ty is TBool:
                return Val(TInt, z3.If(v.t, 1, 0))
            if v.ty in (TInt, TReal):
                return v
        return None

    def binop(self, op, a, b, st, node, spec=False):
        na, nb = self.num(a), self.num(b)
        if na is not None and nb is not None:
            real = na.ty is TReal or nb.ty is TReal
            x, y = na.t, nb.t
            if real:
                x = z3.ToReal(x) if na.ty is TInt else x
                y = z3.ToReal(y) if nb.ty is TInt else y
            ty = TReal if real else TInt
            if isinstance(op, ast.Add):
                return Val(ty, x + y)
            if isinstance(op, ast.Sub):
                return Val(ty, x - y)
            if isinstance(op, ast.Mult):
                return Val(ty, x * y)
            if isinstance(op, ast.Div):
                if not getattr(self.ms, 'symbolic_division', False):
                    self.safety(st, y != 0, f'division by zero at line {node.lineno}', node, spec)
                if not real:
                    x, y = z3.ToReal(x), z3.ToReal(y)
                return Val(TReal, x / y)
            if isinstance(op, ast.FloorDiv) and not real:
                self.safety(st, y != 0, f'division by zero at line {node.lineno}', node, spec)
                return Val(TInt, z3.If(y > 0, x / y, (-x) / (-y)))
            if isinstance(op, ast.Mod) and not real:
                self.safety(st, y != 0, f'modulo by zero at line {node.lineno}', node, spec)
                q = z3.If(y > 0, x / y, (-x) / (-y))
                return Val(TInt, x - y * q)
            if isinstance(op, ast.Pow):
                sy = z3.simplify(y)
                if z3.is_int_value(sy) and 0 <= sy.as_long() <= 4:
                    r = z3.IntVal(1) if not real else z3.RealVal(1)
                    for _ in range(sy.as_long()):
                        r = r * x
                    return Val(ty, r)
            h = self.ms.intrinsics.get('binop:' + type(op).__name__)
            if h:
                return h(self, st, [a, b], {}, node)
            raise OutOfSubset(f'numeric op {type(op).__name__} at line {node.lineno}')
        ops = self.ops(st)
        if isinstance(op, ast.Sub) and isinstance(a, CounterVal) and isinstance(b, CounterVal):
            r, fact = a.minus(b)
            st.facts.add(fact)
            return r
        if isinstance(op, ast.Add):
            if isinstance(a, EmptyList):
                return b if spec else self.copy_list(b, st)
            if isinstance(b, EmptyList):
                return a if spec else self.copy_list(a, st)
            sa, sb = self.as_seq(a, st), self.as_seq(b, st)
            if isinstance(a, PyTuple) and isinstance(b, PyTuple):
                return PyTuple(a.items + b.items)
            if sa is None and isinstance(a, PyTuple) and not a.items:
                return b
            if sb is None and isinstance(b, PyTuple) and not b.items:
                return a
            if sa is not None and sb is None and isinstance(b, PyTuple):
                sb = Val(sa.ty, self.to_term(b, sa.ty, st))
            if sb is not None and sa is None and isinstance(a, PyTuple):
                sa = Val(sb.ty, self.to_term(a, sb.ty, st))
            if sa is not None and sb is not None and sa.ty.key() == sb.ty.key():
                t = ops.concat(sa.ty, sa.t, sb.t)
                if isinstance(a, MList) and not spec:
                    return MList(sa.ty, t)
                return Val(sa.ty, t)
        if isinstance(op, ast.Mult):
            # [v] * n
            lst, cnt = (a, b) if self.num(b) is not None else (b, a)
            s = self.as_seq(lst, st)
            n = self.num(cnt)
            if s is not None and n is not None and n.ty is TInt:
                ln = z3.simplify(s.ty.f_len(s.t))
                # only singleton lists
                if isinstance(lst, MList) or isinstance(lst, Val):
                    one = self._singleton_elem(s, st)
                    if one is not None:
                        t = ops.repeat(s.ty, one, n.t)
                        return MList(s.ty, t) if not spec else Val(s.ty, t)
        h = self.ms.intrinsics.get('binop:' + type(op).__name__)
        if h:
            return h(self, st, [a, b], {}, node)
        raise OutOfSubset(f'binary op {type(op).__name__} on {a}, {b} at line {node.lineno}')

    def copy_list(self, v, st):
        if isinstance(v, MList):
            return MList(v.ty, v.t)
        return v

    def _singleton_elem(self, s, st):
        t = s.t
        if z3.is_app(t) and t.decl().name().startswith('build_') and z3.eq(t.arg(0), s.ty.f_empty):
            return t.arg(1)
        return None

    def ex_Compare(self, n, st, spec):
        left = self.eval(n.left, st, spec)
        res = []
        for op, rn in zip(n.ops, n.comparators):
            right = self.eval(rn, st, spec)
            res.append(self.compare(op, left, right, st, n, spec))
            left = right
        return Val(TBool, z3.And(*res) if len(res) > 1 else res[0])

    def eq_term(self, a, b, st):
        """Python == as a z3 Bool"""
        if isinstance(a, EmptyList) or isinstance(b, EmptyList):
            other = b if isinstance(a, EmptyList) else a
            if isinstance(other, EmptyList):
                return z3.BoolVal(True)
            s = self.as_seq(other, st)
            if s is None:
                if isinstance(other, PyTuple):
                    return z3.BoolVal(False)
                raise OutOfSubset('== [] on non-sequence')
            return s.ty.f_len(s.t) == 0
        if isinstance(a, OptVal) or isinstance(b, OptVal):
            o, other = (a, b) if isinstance(a, OptVal) else (b, a)
            if isinstance(other, Val) and other.ty is TNone:
                return z3.Not(o.present)
            raise OutOfSubset('== on optional value other than None')
        if (isinstance(a, SObj) and isinstance(b, Val) and b.ty is TNone) or \
                (isinstance(b, SObj) and isinstance(a, Val) and a.ty is TNone):
            return z3.BoolVal(False)
        if isinstance(a, PyTuple) and isinstance(b, PyTuple):
            if len(a.items) != len(b.items):
                return z3.BoolVal(False)
            if not a.items:
                return z3.BoolVal(True)
            return z3.And(*[self.eq_term(x, y, st) for x, y in zip(a.items, b.items)])
        if isinstance(a, PyTuple) or isinstance(b, PyTuple):
            tup, other = (a, b) if isinstance(a, PyTuple) else (b, a)
            if isinstance(other, (Val, MList)):
                oty = other.ty
                if isinstance(oty, TTuple):
                    if len(oty.items) != len(tup.items):
                        return z3.BoolVal(False)
                    return other.t == self.to_term(tup, oty, st)
                if isinstance(oty, TSeq):
                    if isinstance(other, MList) or oty.kind == 'list':
                        pass
                    n = len(tup.items)
                    return z3.And(oty.f_len(other.t) == n,
                                  *[self.eq_term(Val(oty.elem, oty.f_at(other.t, z3.IntVal(i))), x, st)
                                    for i, x in enumerate(tup.items)])
            raise OutOfSubset(f'== between tuple and {other}')
        if isinstance(a, MList):
            a = Val(a.ty, a.t)
        if isinstance(b, MList):
            b = Val(b.ty, b.t)
        if isinstance(a, Val) and isinstance(b, Val):
            if a.ty is TNone or b.ty is TNone:
                if a.ty is TNone and b.ty is TNone:
                    return z3.BoolVal(True)
                o = b if a.ty is TNone else a
                if isinstance(o.ty, TOption):
                    return o.ty.is_none(o.t)
                return z3.BoolVal(False)
            if isinstance(a.ty, TSeq) and isinstance(b.ty, TSeq) and a.ty.key() == b.ty.key():
                return self.ops(st).ext_eq(a.ty, a.t, b.t)
            if a.ty == b.ty:
                return a.t == b.t
            na, nb = self.num(a), self.num(b)
            if na is not None and nb is not None:
                x = z3.ToReal(na.t) if na.ty is TInt else na.t
                y = z3.ToReal(nb.t) if nb.ty is TInt else nb.t
                return x == y
            if isinstance(a.ty, TOption) and a.ty.inner == b.ty:
                return a.t == a.ty.some(b.t)
            if isinstance(b.ty, TOption) and b.ty.inner == a.ty:
                return b.t == b.ty.some(a.t)
            # values of different static types are never equal (str vs int, ...)
            return z3.BoolVal(False)
        if isinstance(a, CounterLen) or isinstance(b, CounterLen):
            cl, other = (a, b) if isinstance(a, CounterLen) else (b, a)
            n = z3.simplify(self.to_term(other, TInt, st))
            if z3.is_int_value(n):
                return cl.c.len_is(n.as_long())
            raise OutOfSubset('len(Counter) compared with a symbolic value')
        if isinstance(a, MSet) and isinstance(b, MSet):
            return a.t == b.t
        raise OutOfSubset(f'== between {a} and {b}')

    def compare(self, op, a, b, st, node, spec):
        if isinstance(op, ast.Eq):
            return self.eq_term(a, b, st)
        if isinstance(op, ast.NotEq):
            return z3.Not(self.eq_term(a, b, st))
        if isinstance(op, (ast.Is, ast.IsNot)):
            # only `is None` / identity of immutable scalars
            e = self.eq_term(a, b, st)
            return e if isinstance(op, ast.Is) else z3.Not(e)
        if isinstance(op, (ast.In, ast.NotIn)):
            r = self.contains(b, a, st, node, spec)
            return r if isinstance(op, ast.In) else z3.Not(r)
        na, nb = self.num(a), self.num(b)
        if na is not None and nb is not None:
            x, y = na.t, nb.t
            if na.ty is TReal or nb.ty is TReal:
                x = z3.ToReal(x) if na.ty is TInt else x
                y = z3.ToReal(y) if nb.ty is TInt else y
            if isinstance(op, ast.Lt):
                return x < y
            if isinstance(op, ast.LtE):
                return x <= y
            if isinstance(op, ast.Gt):
                return x > y
            if isinstance(op, ast.GtE):
                return x >= y
        h = self.ms.intrinsics.get('compare:' + type(op).__name__)
        if h:
            return h(self, st, [a, b], {}, node).t
        raise OutOfSubset(f'comparison {type(op).__name__} on {a},{b} at line {node.lineno}')

    def contains(self, container, item, st, node, spec):
        if isinstance(container, EmptyList):
            return z3.BoolVal(False)
        if isinstance(container, PyTuple):
            if not container.items:
                return z3.BoolVal(False)
            return z3.Or(*[self.eq_term(item, c, st) for c in container.items])
        if isinstance(container, MSet):
            return z3.Select(container.t, self.to_term(item, container.elem, st))
        if isinstance(container, MDict):
            return container.has(self.to_term(item, container.kty, st))
        if isinstance(container, CounterVal):
            return container.has(self.to_term(item, container.kty, st))
        s = self.as_seq(container, st)
        if s is not None:
            k = z3.Int(sym.fresh_name('m'))
            x = self.to_term(item, s.ty.elem, st)
            return z3.Exists([k], z3.And(0 <= k, k < s.ty.f_len(s.t), s.ty.f_at(s.t, k) == x))
        h = self.ms.intrinsics.get('contains')
        if h:
            r = h(self, st, [container, item], {}, node)
            if r is not NotImplemented:
                return r.t
        raise OutOfSubset(f'`in` on {container} at line {node.lineno}')

    def ex_Subscript(self, n, st, spec):
        base = self.eval(n.value, st, spec)
        if isinstance(n.slice, ast.Slice):
            return self.do_slice(base, n.slice, st, spec, n)
        idx = self.eval(n.slice, st, spec)
        return self.getitem(base, idx, st, n, spec)

    def getitem(self, base, idx, st, n, spec):
        if isinstance(base, PyTuple):
            it = z3.simplify(self.to_term(idx, TInt, st))
            if z3.is_int_value(it):
                i = it.as_long()
                if -len(base.items) <= i < len(base.items):
                    return base.items[i]
                self.safety(st, z3.BoolVal(False), 'tuple index out of range', n, spec)
                return base.items[0]
            raise OutOfSubset('symbolic index into fixed tuple')
        if isinstance(base, Val) and isinstance(base.ty, TTuple):
            it = z3.simplify(self.to_term(idx, TInt, st))
            if z3.is_int_value(it):
                i = it.as_long()
                if i < 0:
                    i += len(base.ty.items)
                return self.wrap(base.ty.items[i], base.ty.get(base.t, i), st)
            raise OutOfSubset('symbolic index into fixed tuple')
        if isinstance(base, (Val, MList)) and isinstance(base.ty, TSeq):
            it = self.index_term(base.ty, base.t, idx, st, n, spec)
            return self.wrap(base.ty.elem, base.ty.f_at(base.t, it), st)
        if isinstance(base, CounterVal):
            return Val(TInt, base.get(self.to_term(idx, base.kty, st)))
        if isinstance(base, MDict):
            return base.getitem(self, st, idx, n, spec)
        if isinstance(base, MMatrix) and isinstance(idx, PyTuple) and len(idx.items) == 2:
            i, j = [self.to_term(x, TInt, st) for x in idx.items]
            self.safety(st, z3.And(0 <= i, i < base.rows, 0 <= j, j < base.cols),
                        f'matrix index in range at line {getattr(n, "lineno", 0)}', n, spec)
            return Val(TReal, base.get(i, j))
        h = self.ms.intrinsics.get('getitem')
        if h:
            r = h(self, st, [base, idx], {}, n)
            if r is not NotImplemented:
                return r
        raise OutOfSubset(f'subscript of {base} at line {n.lineno}')

    def do_slice(self, base, sl, st, spec, n):
        h = self.ms.intrinsics.get('slice')
        if h is not None:
            r = h(self, st, [base, sl], {}, n)
            if r is not NotImplemented:
                return r
        if sl.step is not None:
            raise OutOfSubset('slice with step')
        lo = self.to_term(self.eval(sl.lower, st, spec), TInt, st) if sl.lower is not None else None
        hi = self.to_term(self.eval(sl.upper, st, spec), TInt, st) if sl.upper is not None else None
        if isinstance(base, PyTuple):
            lo_s = z3.simplify(lo) if lo is not None else None
            hi_s = z3.simplify(hi) if hi is not None else None
            if (lo_s is None or z3.is_int_value(lo_s)) and (hi_s is None or z3.is_int_value(hi_s)):
                return PyTuple(base.items[slice(lo_s.as_long() if lo_s is not None else None,
                                                hi_s.as_long() if hi_s is not None else None)])
            raise OutOfSubset('symbolic slice of a fixed tuple')
        s = self.as_seq(base, st)
        if s is None:
            raise OutOfSubset(f'slice of {base} at line {n.lineno}')
        t = self.ops(st).slice(s.ty, s.t, lo, hi)
        if isinstance(base, MList) and not spec:
            return MList(s.ty, t)
        return Val(s.ty, t)

    def ex_Attribute(self, n, st, spec):
        base = self.eval(n.value, st, spec)
        if isinstance(base, OptVal):
            self.safety(st, base.present, f'attribute of a value that may be None (line {n.lineno})', n, spec)
            base = base.value
        h = self.ms.intrinsics.get('attr:' + n.attr)
        if h is not None:
            r = h(self, st, [base], {}, n)
            if r is not NotImplemented:
                return r
        if isinstance(base, SObj):
            if n.attr in base.fields:
                return base.fields[n.attr]
            return BoundMethod(base, n.attr)
        if isinstance(base, Val) and isinstance(base.ty, TOpaque) and n.attr in base.ty.attrs:
            return self.wrap(base.ty.attrs[n.attr], base.ty.attr_fn(n.attr)(base.t), st)
        if isinstance(base, Val) and isinstance(base.ty, TOpaque):
            mc = self.registry.get(f'{self.ms.path}:{base.ty.name}.{n.attr}')
            if mc is not None and getattr(mc, 'is_property', False):
                return self.call_contract(mc, [base], {}, st, n, spec)
        if isinstance(base, ModuleRef):
            return ModuleRef(base.name + '.' + n.attr)
        return BoundMethod(base, n.attr)

    def ex_Dict(self, n, st, spec):
        if n.keys and n.keys[0] is None and all(k is not None for k in n.keys[1:]):
            # {**d, k1: v1, ...}: a copy of the dict d with the entries set
            base = self.eval(n.values[0], st, spec)
            if isinstance(base, MDict):
                d = MDict(base.kty, base.comps, base.keys, list(base.arrs))
                for k, v in zip(n.keys[1:], n.values[1:]):
                    d.setitem(self, st, self.eval(k, st, spec), self.eval(v, st, spec))
                return d
        if any(k is None for k in n.keys):
            raise OutOfSubset('dict unpacking')
        return PyDict([(self.eval(k, st, spec), self.eval(v, st, spec)) for k, v in zip(n.keys, n.values)])

    def ex_Lambda(self, n, st, spec):
        return Closure(n, st.env)

    def ex_JoinedStr(self, n, st, spec):
        h = self.ms.intrinsics.get('fstring')
        if h is not None:
            return h(self, st, [n], {}, n)
        raise OutOfSubset('f-string')

    # comprehensions -----------------------------------------------------------------------------
    def _quant(self, gens, body_fn, st, spec, forall):
        """all()/any() over generators -> quantifier"""
        bound = []
        conds = []
        saved = dict(st.env)
        pushed = 0
        try:
            for g in gens:
                src = self.as_iter(self.eval(g.iter, st, spec), st)
                if src is None:
                    raise OutOfSubset('quantifier over unsupported iterable')
                k = z3.Int(sym.fresh_name('q'))
                bound.append(k)
                sym._bound_stack.append(k)
                rng = z3.And(0 <= k, k < src.n)
                conds.append(rng)
                st.guards.append(rng)
                pushed += 1
                self.assign(g.target, src.item(k, st), st)
                for c in g.ifs:
                    ct = self.truthy(self.eval(c, st, spec), st)
                    conds.append(ct)
                    st.guards.append(ct)
                    pushed += 1
            body = body_fn()
        finally:
            for _ in range(pushed):
                st.guards.pop()
            for _ in bound:
                sym._bound_stack.pop()
            st.env = saved
        if forall:
            return z3.ForAll(bound, z3.Implies(z3.And(*conds), body))
        return z3.Exists(bound, z3.And(*conds, body))

    def ex_GeneratorExp(self, n, st, spec):
        return GenExp(n)

    def ex_ListComp(self, n, st, spec):
        if len(n.generators) != 1 or n.generators[0].ifs:
            h = self.ms.intrinsics.get('listcomp')
            if h:
                return h(self, st, [n], {}, n)
            raise OutOfSubset(f'list comprehension with filter/multiple generators line {n.lineno}')
        g = n.generators[0]
        src = self.as_iter(self.eval(g.iter, st, spec), st)
        if src is None:
            raise OutOfSubset('comprehension over unsupported iterable')
        saved = dict(st.env)
        res_ty = [None]

        def body(k):
            self.assign(g.target, src.item(k, st), st)
            st.guards.append(z3.And(0 <= k, k < src.n))
            try:
                v = self.eval(n.elt, st, spec)
            finally:
                st.guards.pop()
            if isinstance(v, MList):
                v = Val(v.ty, v.t)
            ety = self.type_of(v)
            res_ty[0] = ety
            return self.to_term(v, ety, st)

        # two-phase: need the element type before creating the sequence sort -> evaluate once
        k0 = z3.Int(sym.fresh_name('k'))
        sym._bound_stack.append(k0)
        try:
            b0 = body(k0)
        finally:
            sym._bound_stack.pop()
            st.env = dict(saved)
        ty = TSeq(res_ty[0])
        r = ty.fresh('comp')
        st.facts.add(ty.f_len(r) == z3.If(src.n < 0, 0, src.n))
        st.facts.add(z3.ForAll([k0], z3.Implies(z3.And(0 <= k0, k0 < src.n), ty.f_at(r, k0) == b0),
                               patterns=[ty.f_at(r, k0)]))
        st.env = saved
        return Val(ty, r) if spec else MList(ty, r)

    # calls --------------------------------------------------------------------------------------
    def ex_Call(self, n, st, spec):
        # quantifier forms first (argument is a generator expression)
        if isinstance(n.func, ast.Name) and n.func.id in ('all', 'any') and len(n.args) == 1 \
                and isinstance(n.args[0], ast.GeneratorExp) and n.func.id not in st.env:
            ge = n.args[0]
            f = self._quant(ge.generators,
                            lambda: self.truthy(self.eval(ge.elt, st, spec), st), st, spec,
                            n.func.id == 'all')
            return Val(TBool, f)
        fn = self.eval(n.func, st, spec)
        if any(isinstance(a, ast.Starred) for a in n.args) or any(k.arg is None for k in n.keywords):
            raise OutOfSubset(f'star-args call at line {n.lineno}')
        if spec and isinstance(n.func, ast.Name) and n.func.id == 'old':
            saved = st.env
            st.env = dict(st.env)
            st.env.update(st.old)
            try:
                return self.eval(n.args[0], st, spec)
            finally:
                st.env = saved
        args = [self.eval(a, st, spec) for a in n.args]
        kwargs = {k.arg: self.eval(k.value, st, spec) for k in n.keywords}
        return self.call(fn, args, kwargs, st, n, spec)

    def dotted(self, fn):
        if isinstance(fn, ModuleRef):
            return fn.name
        if isinstance(fn, Builtin):
            return fn.name
        return None

    def call(self, fn, args, kwargs, st, n, spec):
        from .api import Fold

        if isinstance(fn, Fold):
            s = self.as_seq(args[0], st)
            if s is None and isinstance(args[0], EmptyList):
                s = Val(fn.dom, self.ops(st).empty(fn.dom))
            r = fn.fn()(s.t)
            return self.wrap(fn.cod, r, st)
        d = self.dotted(fn)
        if d is not None and d in self.ms.intrinsics:
            return self.ms.intrinsics[d](self, st, args, kwargs, n)
        if isinstance(fn, Builtin):
            if fn.name in self.ms.aliases:
                return self.call_contract(self.registry[self.ms.aliases[fn.name]], args, kwargs, st, n, spec)
            return BUILTINS[fn.name](self, st, args, kwargs, n, spec)
        if isinstance(fn, Closure):
            if fn.name is not None and fn.env is None:
                # module-level function: contract or inline
                fid = f'{self.ms.path}:{fn.name}'
                c = self.registry.get(fid)
                if c is not None and not c.inline:
                    return self.call_contract(c, args, kwargs, st, n, spec)
            return self.inline_call(fn, args, kwargs, st, n, spec)
        if isinstance(fn, BoundMethod):
            return self.call_method(fn, args, kwargs, st, n, spec)
        if isinstance(fn, ExcClass):
            return ExcVal(fn.name)
        if isinstance(fn, Val):
            h = self.ms.intrinsics.get('call:' + fn.ty.key())
            if h is not None:
                return h(self, st, [fn] + args, kwargs, n)
        raise OutOfSubset(f'call of {d or fn} at line {n.lineno}')

    def bind_args(self, fnode, args, kwargs, st, spec):
        a = fnode.args
        names = [x.arg for x in a.args]
        env = {}
        for nm, v in zip(names, args):
            env[nm] = v
        if len(args) > len(names):
            raise OutOfSubset('too many positional args')
        for k, v in kwargs.items():
            env[k] = v
        defaults = a.defaults
        for nm, d in zip(names[len(names) - len(defaults):], defaults):
            if nm not in env:
                env[nm] = self.eval(d, st, spec)
        for kw, d in zip(a.kwonlyargs, a.kw_defaults):
            if kw.arg not in env and d is not None:
                env[kw.arg] = self.eval(d, st, spec)
        for nm in names + [k.arg for k in a.kwonlyargs]:
            if nm not in env:
                raise OutOfSubset(f'missing argument {nm}')
        return env

    def call_contract(self, c, args, kwargs, st, n, spec):
        # resolve callee source for parameter binding
        if c.module.path == self.ms.path:
            fnode = self._funcs.get(c.qualname)
        else:
            fnode = get_exec(self.repo, c.module, self.registry)._funcs.get(c.qualname)
        if fnode is None:
            raise ContractStale(f'{c.fid} not found')
        env = self.bind_args(fnode, args, kwargs, st, spec)
        saved_env, saved_old = st.env, st.old
        call_env = {}
        for nm, ty in c.params.items():
            if nm not in env:
                continue
            v = env[nm]
            rty = ty.resolve()
            if isinstance(rty, (TSeq, TTuple, TOption)) or rty in (TInt, TReal, TBool, TStr) \
                    or isinstance(rty, TOpaque):
                t = self.to_term(v, rty, st)
                call_env[nm] = self.wrap(rty, t, st)
            else:
                call_env[nm] = v
        st.env = call_env
        st.old = dict(call_env)
        try:
            for r in c.requires:
                g = self.spec_bool(r, st)
                self.oblige(st, 'call-pre', f'precondition of {c.qualname}: {r}', g, n.lineno, r)
            for exc, cond in c.raises.items():
                if cond is True:
                    continue
                ct = self.spec_bool(cond, st)
                if spec or st.guards or sym._bound_stack:
                    self.oblige(st, 'call-pre', f'{c.qualname} does not raise {exc}: not({cond})',
                                z3.Not(ct), n.lineno, cond)
                else:
                    st.pending.append((exc, ct, n.lineno))
            if c is self.c and c.decreases:
                m = self.spec_val(c.decreases, st).t
                self.oblige(st, 'decreases',
                            f'recursive call decreases {c.decreases}',
                            z3.And(self.entry_measure >= 0, m < self.entry_measure, m >= 0) if False
                            else z3.And(m < self.entry_measure, self.entry_measure >= 0),
                            n.lineno, c.decreases)
            elif c is self.c and not c.decreases:
                raise OutOfSubset(f'recursive call without decreases clause: {c.fid}')
            rty = c.returns.resolve() if c.returns is not None else TNone
            res = self.fresh_val(rty, st, 'ret_' + c.qualname.replace('.', '_'))
            st.env = dict(call_env)
            st.env['result'] = res
            for e in c.ensures:
                st.assume(self.spec_bool(e, st))
        finally:
            st.env, st.old = saved_env, saved_old
        return res

    def inline_call(self, fn, args, kwargs, st, n, spec):
        node = fn.node
        env = dict(fn.env) if fn.env is not None else {}
        saved = st.env
        if isinstance(node, ast.Lambda):
            names = [a.arg for a in node.args.args]
            st.env = dict(env)
            st.env.update(zip(names, args))
            try:
                return self.eval(node.body, st, spec)
            finally:
                st.env = saved
        benv = self.bind_args(node, args, kwargs, st, spec)
        st.env = dict(env)
        st.env.update(benv)
        try:
            # straight-line bodies only (no forking inside expression evaluation)
            results = self.exec_block(node.body, st)
            results = [(s, sig) for s, sig in results]
            if len(results) != 1 or results[0][0] is not st:
                raise OutOfSubset(f'inlined function {getattr(node, "name", "?")} forks; give it a contract')
            sig = results[0][1]
            if sig[0] == 'return':
                return sig[1]
            if sig[0] == 'next':
                return NONE
            raise OutOfSubset('inlined function raises')
        finally:
            st.env = saved

    def call_method(self, bm, args, kwargs, st, n, spec):
        base, name = bm.base, bm.name
        ops = self.ops(st)
        key = 'method:' + name
        if key in self.ms.intrinsics:
            r = self.ms.intrinsics[key](self, st, [base] + args, kwargs, n)
            if r is not NotImplemented:
                return r
        if isinstance(base, Val) and isinstance(base.ty, TOpaque):
            mc = self.registry.get(f'{self.ms.path}:{base.ty.name}.{name}')
            if mc is not None:
                return self.call_contract(mc, [base] + args, kwargs, st, n, spec)
        if isinstance(base, MList):
            if name == 'append':
                base.t = ops.build(base.ty, base.t, self.to_term(args[0], base.ty.elem, st))
                return NONE
            if name == 'pop' and not args:
                ln = base.ty.f_len(base.t)
                self.safety(st, ln > 0, f'pop from empty list at line {n.lineno}', n, spec)
                v = self.wrap(base.ty.elem, base.ty.f_at(base.t, ln - 1), st)
                base.t = ops.slice(base.ty, base.t, z3.IntVal(0), ln - 1)
                return v
            if name == 'extend':
                if isinstance(args[0], GenExp):
                    lc = ast.ListComp(elt=args[0].node.elt, generators=args[0].node.generators)
                    ast.copy_location(lc, args[0].node)
                    args = [self.ex_ListComp(lc, st, spec)]
                s = self.as_seq(args[0], st)
                base.t = ops.concat(base.ty, base.t, s.t)
                return NONE
            if name == 'copy':
                return MList(base.ty, base.t)
        if isinstance(base, EmptyList):
            raise OutOfSubset(f'method {name} on untyped empty list; declare its type in contract.locals')
        if isinstance(base, MSet):
            if name == 'add':
                base.t = z3.Store(base.t, self.to_term(args[0], base.elem, st), True)
                return NONE
            if name == 'discard':
                base.t = z3.Store(base.t, self.to_term(args[0], base.elem, st), False)
                return NONE
        if isinstance(base, (Val, MList)) and isinstance(base.ty, TSeq):
            if name == 'index':
                x = self.to_term(args[0], base.ty.elem, st)
                k = z3.Int(sym.fresh_name('idx'))
                q = z3.Int(sym.fresh_name('q'))
                ex = z3.Exists([q], z3.And(0 <= q, q < base.ty.f_len(base.t), base.ty.f_at(base.t, q) == x))
                self.safety(st, ex, f'.index() of a present element at line {n.lineno}', n, spec)
                st.facts.add(z3.And(0 <= k, k < base.ty.f_len(base.t), base.ty.f_at(base.t, k) == x,
                                    z3.ForAll([q], z3.Implies(z3.And(0 <= q, q < k),
                                                              base.ty.f_at(base.t, q) != x))))
                return Val(TInt, k)
        if isinstance(base, MDict) and name == 'get' and len(args) == 1:
            k = self.to_term(args[0], base.kty, st)
            v = base.value(self, st, k)
            return OptVal(base.has(k), v)
        raise OutOfSubset(f'method {name} on {base} at line {n.lineno}')

    def ex_Starred(self, n, st, spec):
        raise OutOfSubset('starred expression')


class _Macro(ast.NodeTransformer):
    """contract-level abbreviations: Name -> parsed expression (textual macro)"""

    def __init__(self, defs):
        self.defs = defs

    def visit_Name(self, node):
        if node.id in self.defs:
            return _Macro(self.defs).visit(parse_expr(self.defs[node.id]))
        return node


class MMatrix:
    """mutable dense matrix of reals (symengine / numpy 2-d): rows, cols, Array (Int, Int) -> Real"""

    def __init__(self, rows, cols, t):
        self.rows, self.cols, self.t = rows, cols, t

    @staticmethod
    def zeros(rows, cols):
        return MMatrix(rows, cols, z3.K(z3.IntSort(), z3.K(z3.IntSort(), z3.RealVal(0))))

    def get(self, i, j):
        return z3.Select(z3.Select(self.t, i), j)

    def set(self, i, j, v):
        self.t = z3.Store(self.t, i, z3.Store(z3.Select(self.t, i), j, v))


class OptVal:
    """Python-level optional: `present` condition and the value when present (dict.get)"""

    def __init__(self, present, value):
        self.present, self.value = present, value


class EmptyList:
    """`[]` literal whose element type is not yet known"""


class GenExp:
    def __init__(self, node):
        self.node = node


class BoundMethod:
    def __init__(self, base, name):
        self.base, self.name = base, name


class CounterVal:
    """collections.Counter[K] (mutable): counts Array K -> Int and key set Array K -> Bool.
    Reading a missing key gives 0 and does not insert (Counter.__missing__).
    Representation invariant maintained by every operation here and assumed of havoc'd
    counters by the front end: a key that is absent has count 0 (so get(k) == cnt[k])."""

    def __init__(self, kty, cnt, keys):
        self.kty, self.cnt, self.keys = kty, cnt, keys

    @staticmethod
    def fresh(kty, prefix='ctr'):
        return CounterVal(kty, z3.Const(sym.fresh_name(prefix + '_cnt'), z3.ArraySort(kty.sort(), z3.IntSort())),
                          z3.Const(sym.fresh_name(prefix + '_keys'), z3.ArraySort(kty.sort(), z3.BoolSort())))

    @staticmethod
    def empty(kty):
        return CounterVal(kty, z3.K(kty.sort(), z3.IntVal(0)), z3.K(kty.sort(), z3.BoolVal(False)))

    def get(self, k):
        return z3.Select(self.cnt, k)

    def set(self, k, v):
        self.cnt = z3.Store(self.cnt, k, v)
        self.keys = z3.Store(self.keys, k, z3.BoolVal(True))

    def delete(self, k):
        self.keys = z3.Store(self.keys, k, z3.BoolVal(False))
        self.cnt = z3.Store(self.cnt, k, z3.IntVal(0))

    def has(self, k):
        return z3.Select(self.keys, k)

    def nonempty(self):
        k = z3.Const(sym.fresh_name('ck'), self.kty.sort())
        return z3.Exists([k], z3.Select(self.keys, k))

    def len_is(self, n):
        """len(counter) == n for n in {0, 1}"""
        k = z3.Const(sym.fresh_name('ck'), self.kty.sort())
        u = z3.Const(sym.fresh_name('cu'), self.kty.sort())
        if n == 0:
            return z3.Not(z3.Exists([k], z3.Select(self.keys, k)))
        if n == 1:
            return z3.Exists([k], z3.And(z3.Select(self.keys, k),
                                         z3.ForAll([u], z3.Implies(z3.Select(self.keys, u), u == k))))
        raise OutOfSubset('len(Counter) compared with a constant other than 0/1')

    def minus(self, other):
        """Counter subtraction: keeps only positive differences"""
        r = CounterVal.fresh(self.kty, 'cdiff')
        k = z3.Const(sym.fresh_name('ck'), self.kty.sort())
        d = self.get(k) - other.get(k)
        fact = z3.ForAll([k], z3.And(z3.Select(r.keys, k) == (d > 0),
                                     z3.Select(r.cnt, k) == z3.If(d > 0, d, 0)),
                         patterns=[z3.Select(r.keys, k), z3.Select(self.cnt, k)])
        return r, fact

    def copy(self):
        return CounterVal(self.kty, self.cnt, self.keys)


class MDict:
    """dict K -> record of values: key set Array K -> Bool plus one Array K -> T per component"""

    def __init__(self, kty, comps, keys, arrs):
        self.kty, self.comps, self.keys, self.arrs = kty, comps, keys, list(arrs)

    @staticmethod
    def fresh(kty, comps, prefix='d'):
        return MDict(kty, comps,
                     z3.Const(sym.fresh_name(prefix + '_keys'), z3.ArraySort(kty.sort(), z3.BoolSort())),
                     [z3.Const(sym.fresh_name(f'{prefix}_v{i}'), z3.ArraySort(kty.sort(), c.sort()))
                      for i, c in enumerate(comps)])

    def has(self, k):
        return z3.Select(self.keys, k)

    def getitem(self, ex, st, idx, node, spec=False):
        k = ex.to_term(idx, self.kty, st)
        ex.safety(st, self.has(k), f'key present at line {getattr(node, "lineno", 0)}', node, spec)
        return self.value(ex, st, k)

    def value(self, ex, st, k):
        vals = [ex.wrap(c, z3.Select(a, k), st) for c, a in zip(self.comps, self.arrs)]
        return vals[0] if len(vals) == 1 else PyTuple(vals)

    def setitem(self, ex, st, idx, v):
        k = ex.to_term(idx, self.kty, st)
        vals = [v] if len(self.comps) == 1 else ex.unpack(v, len(self.comps), st, None)
        self.keys = z3.Store(self.keys, k, z3.BoolVal(True))
        self.arrs = [z3.Store(a, k, ex.to_term(x, c, st)) for a, x, c in zip(self.arrs, vals, self.comps)]

    def delitem(self, ex, st, idx, node):
        k = ex.to_term(idx, self.kty, st)
        ex.safety(st, self.has(k), f'del of a present key at line {node.lineno}', node)
        self.keys = z3.Store(self.keys, k, z3.BoolVal(False))


class CounterLen:
    def __init__(self, c):
        self.c = c


class PyDict:
    """dict display {k: v, ...} with statically known entries"""

    def __init__(self, items):
        self.items = items


class LockVal:
    """threading.Lock / RLock / Condition(RLock()) ghost state: owner thread (0 = free), depth"""

    def __init__(self, owner, depth, reentrant, name='lock'):
        self.owner, self.depth, self.reentrant, self.name = owner, depth, reentrant, name

    def copy(self):
        return LockVal(self.owner, self.depth, self.reentrant, self.name)


def fold_instantiate(fold, ops, how, r, *args):
    ex, st = ops.ex, ops.st
    if ex is None:
        return
    f = fold.fn()
    dom, cod = fold.dom, fold.cod
    saved = st.env
    st.env = {}
    try:
        if how == 'empty':
            init = ex.eval(parse_expr(fold.init_src), st, spec=True)
            st.facts.add(f(r) == ex.to_term(init, cod, st))
        elif how == 'build':
            s, v = args
            step = ex.eval(parse_expr(fold.step_src), st, spec=True)
            res = ex.call(step, [ex.wrap(cod, f(s), st), ex.wrap(dom.elem, v, st)], {}, st, None, True)
            st.facts.add(f(r) == ex.to_term(res, cod, st))
        elif how == 'concat' and fold.homomorphic:
            a, b = args
            if isinstance(cod, TSeq):
                st.facts.add(f(r) == ops.concat(cod, f(a), f(b)))
            elif cod is TInt or cod is TReal:
                st.facts.add(f(r) == f(a) + f(b))
    finally:
        st.env = saved


_execs = {}


def get_exec(repo, ms, registry):
    # (two sidecars may put contracts on the same file: the executor carries the sidecar's intrinsics)
    k = (repo, ms.path, id(ms))
    if k not in _execs:
        if getattr(ms, 'exec_class', None) == 'monitor':
            from .monitor import MonitorExec
            _execs[k] = MonitorExec(repo, ms, registry)
        elif getattr(ms, 'exec_class', None) == 'struct':
            from .structs import StructExec
            _execs[k] = StructExec(repo, ms, registry)
        else:
            _execs[k] = Exec(repo, ms, registry)
    return _execs[k]


def verify_contract(ex, c):
    """dispatch: ordinary function contract or monitor method"""
    if getattr(c, 'struct', None):
        from .structs import verify_struct
        return verify_struct(ex, c)
    mon = getattr(c, 'monitor', None)
    if mon:
        import importlib
        mod = importlib.import_module(c.sidecar_module)
        return ex.verify_method(c, mod.MONITORS[mon])
    return ex.verify(c)


EXC_NAMES = {'Exception', 'ValueError', 'KeyError', 'IndexError', 'TypeError', 'StopIteration',
             'NotImplementedError', 'AssertionError', 'RuntimeError', 'OSError', 'FileNotFoundError',
             'FileExistsError', 'BlockingIOError', 'PermissionError'}


# ------------------------------------------------------------------------------------------------
# builtins
# ------------------------------------------------------------------------------------------------
def _b_len(ex, st, args, kwargs, n, spec):
    v = args[0]
    if isinstance(v, EmptyList):
        return IntV(0)
    if isinstance(v, PyTuple):
        return IntV(len(v.items))
    if isinstance(v, (Val, MList)) and isinstance(v.ty, TSeq):
        return Val(TInt, v.ty.f_len(v.t))
    if isinstance(v, Val) and isinstance(v.ty, TTuple):
        return IntV(len(v.ty.items))
    if isinstance(v, Val) and isinstance(v.ty, TOpaque) and 'len' in v.ty.attrs:
        t = v.ty.attr_fn('len')(v.t)
        st.facts.add(t >= 0)
        return Val(TInt, t)
    if isinstance(v, IterSrc):
        return Val(TInt, v.n)
    if isinstance(v, CounterVal):
        return CounterLen(v)
    h = ex.ms.intrinsics.get('len')
    if h:
        return h(ex, st, args, kwargs, n)
    raise OutOfSubset(f'len of {v}')


def _b_range(ex, st, args, kwargs, n, spec):
    ts = [ex.to_term(a, TInt, st) for a in args]
    if len(ts) == 1:
        lo, hi = z3.IntVal(0), ts[0]
    elif len(ts) == 2:
        lo, hi = ts
    else:
        step = z3.simplify(ts[2])
        if z3.is_int_value(step) and step.as_long() == -1:
            lo, hi = ts[0], ts[1]
            cnt = z3.If(lo - hi < 0, 0, lo - hi)
            return IterSrc(z3.simplify(cnt), lambda k, s: Val(TInt, lo - k), TInt)
        if not (z3.is_int_value(step) and step.as_long() == 1):
            raise OutOfSubset('range with a step other than 1 / -1')
        lo, hi = ts[0], ts[1]
    cnt = z3.If(hi - lo < 0, 0, hi - lo)
    lo_s = z3.simplify(lo)
    if z3.is_int_value(lo_s) and lo_s.as_long() == 0:
        # keep index terms free of arithmetic (they are used as quantifier patterns)
        return IterSrc(z3.simplify(cnt), lambda k, s: Val(TInt, k), TInt)
    return IterSrc(z3.simplify(cnt), lambda k, s: Val(TInt, lo + k), TInt)


def _b_zip(ex, st, args, kwargs, n, spec):
    srcs = [ex.as_iter(a, st) for a in args]
    if any(s is None for s in srcs):
        raise OutOfSubset('zip over unsupported iterable')
    cnt = srcs[0].n
    for s in srcs[1:]:
        cnt = z3.If(s.n < cnt, s.n, cnt)
    ty = TTuple(*[s.ty for s in srcs]) if all(s.ty is not None for s in srcs) else None
    return IterSrc(cnt, lambda k, s: PyTuple([x.item(k, s) for x in srcs]), ty,
                   [q for x in srcs for q in x.seqs])


def _b_enumerate(ex, st, args, kwargs, n, spec):
    src = ex.as_iter(args[0], st)
    if src is None:
        raise OutOfSubset('enumerate over unsupported iterable')
    start = ex.to_term(args[1], TInt, st) if len(args) > 1 else (
        ex.to_term(kwargs['start'], TInt, st) if 'start' in kwargs else z3.IntVal(0))
    ty = TTuple(TInt, src.ty) if src.ty is not None else None
    return IterSrc(src.n, lambda k, s: PyTuple([Val(TInt, start + k), src.item(k, s)]), ty, src.seqs)


def _b_reversed(ex, st, args, kwargs, n, spec):
    src = ex.as_iter(args[0], st)
    if src is None:
        raise OutOfSubset('reversed over unsupported iterable')
    if isinstance(args[0], MList) and n.args and isinstance(n.args[0], ast.Name):
        # list_reverseiterator is a LIVE view: it keeps an index starting at len-1 (len taken when the
        # iterator is created) and yields lst[index] of the list as it is THEN, stopping for good when
        # index >= len(lst).  Item k is therefore the current lst[n0-1-k]; that the index is still in
        # range is an obligation (if it could fail the real loop would end early, which is not modelled).
        name, ty, n0 = n.args[0].id, args[0].ty, src.n

        def live_item(k, s, name=name, ty=ty, n0=n0, node=n):
            cur = s.env.get(name)
            if not isinstance(cur, MList):
                raise OutOfSubset(f'reversed({name}): {name} is rebound while it is iterated')
            ex.safety(s, n0 - 1 - k < ty.f_len(cur.t),
                      f'reversed({name}) index still inside the list it walks (line {node.lineno})', node)
            return ex.wrap(ty.elem, ty.f_at(cur.t, n0 - 1 - k), s)

        r = IterSrc(src.n, live_item, src.ty)
        r.live = name
        return r
    return IterSrc(src.n, lambda k, s: src.item(src.n - 1 - k, s), src.ty)


def _b_list(ex, st, args, kwargs, n, spec):
    if not args:
        return EmptyList()
    v = args[0]
    if isinstance(v, GenExp):
        lc = ast.ListComp(elt=v.node.elt, generators=v.node.generators)
        ast.copy_location(lc, v.node)
        r = ex.ex_ListComp(lc, st, spec)
        return r
    s = ex.as_seq(v, st)
    if s is None:
        raise OutOfSubset(f'list() of {v}')
    return Val(s.ty, s.t) if spec else MList(s.ty.with_kind('list'), s.t)


def _b_tuple(ex, st, args, kwargs, n, spec):
    if not args:
        return PyTuple([])
    v = args[0]
    if isinstance(v, PyTuple):
        return v
    if isinstance(v, GenExp):
        lc = ast.ListComp(elt=v.node.elt, generators=v.node.generators)
        ast.copy_location(lc, v.node)
        r = ex.ex_ListComp(lc, st, True)
        return Val(r.ty.with_kind('tuple'), r.t)
    s = ex.as_seq(v, st)
    if s is None:
        raise OutOfSubset(f'tuple() of {v}')
    return Val(s.ty.with_kind('tuple'), s.t)


def _b_minmax(is_max):
    def f(ex, st, args, kwargs, n, spec):
        if len(args) >= 2:
            vals = [ex.num(a) for a in args]
            if any(v is None for v in vals):
                raise OutOfSubset('min/max of non-numbers')
            real = any(v.ty is TReal for v in vals)
            ts = [z3.ToReal(v.t) if real and v.ty is TInt else v.t for v in vals]
            r = ts[0]
            for t in ts[1:]:
                r = z3.If(t > r, t, r) if is_max else z3.If(t < r, t, r)
            return Val(TReal if real else TInt, r)
        s = ex.as_seq(args[0], st)
        if s is None or s.ty.elem not in (TInt, TReal):
            raise OutOfSubset('min/max of unsupported iterable')
        ln = s.ty.f_len(s.t)
        ex.safety(st, ln > 0, f'min/max of non-empty sequence at line {n.lineno}', n, spec)
        r = s.ty.elem.fresh('mx')
        q = z3.Int(sym.fresh_name('q'))
        w = z3.Int(sym.fresh_name('w'))
        cmp = (s.ty.f_at(s.t, q) <= r) if is_max else (s.ty.f_at(s.t, q) >= r)
        st.facts.add(z3.Implies(ln > 0, z3.And(
            z3.ForAll([q], z3.Implies(z3.And(0 <= q, q < ln), cmp)),
            0 <= w, w < ln, s.ty.f_at(s.t, w) == r)))
        return Val(s.ty.elem, r)

    return f


def _b_set(ex, st, args, kwargs, n, spec):
    if not args:
        return EmptySet()
    raise OutOfSubset('set(iterable)')


class EmptySet:
    pass


def _b_isinstance(ex, st, args, kwargs, n, spec):
    h = ex.ms.intrinsics.get('isinstance')
    if h:
        return h(ex, st, args, kwargs, n)
    raise OutOfSubset('isinstance')


def _b_val(ex, st, args, kwargs, n, spec):
    v = args[0]
    if isinstance(v, Val) and isinstance(v.ty, TOption):
        return ex.wrap(v.ty.inner, v.ty.val(v.t), st)
    return v


def _b_rev(ex, st, args, kwargs, n, spec):
    if isinstance(args[0], EmptyList):
        return args[0]
    s = ex.as_seq(args[0], st)
    return Val(s.ty, ex.ops(st).rev(s.ty, s.t))


def atend_fn(ty):
    return ty._fn('atend', ty.sort(), z3.IntSort(), ty.elem.sort())


def atend_define(st, ty):
    """atend(s, d) := s[len(s) - 1 - d] -- element at distance d from the END of s (a deletion in front of an
    element does not change its distance from the end); definitional axiom, once per state and type"""
    key = 'atend:' + ty.key()
    if st.mon.get(key):
        return
    st.mon[key] = True
    s_ = z3.Const(sym.fresh_name('s'), ty.sort())
    d = z3.Int(sym.fresh_name('d'))
    f = atend_fn(ty)
    st.facts.add(z3.ForAll([s_, d], f(s_, d) == ty.f_at(s_, ty.f_len(s_) - 1 - d), patterns=[f(s_, d)]))


def _b_atend(ex, st, args, kwargs, n, spec):
    s = ex.as_seq(args[0], st)
    if s is None:
        raise OutOfSubset('atend of a non-sequence')
    atend_define(st, s.ty)
    return ex.wrap(s.ty.elem, atend_fn(s.ty)(s.t, ex.to_term(args[1], TInt, st)), st)


def _b_implies(ex, st, args, kwargs, n, spec):
    return Val(TBool, z3.Implies(ex.truthy(args[0], st), ex.truthy(args[1], st)))


def _b_abs(ex, st, args, kwargs, n, spec):
    v = ex.num(args[0])
    return Val(v.ty, z3.If(v.t < 0, -v.t, v.t))


def _b_int(ex, st, args, kwargs, n, spec):
    v = ex.num(args[0])
    if v is None:
        raise OutOfSubset('int() of non-number')
    if v.ty is TInt:
        return v
    # truncation toward zero
    return Val(TInt, z3.If(v.t >= 0, z3.ToInt(v.t), -z3.ToInt(-v.t)))


def _b_float(ex, st, args, kwargs, n, spec):
    v = ex.num(args[0])
    if v is None:
        raise OutOfSubset('float() of non-number')
    return Val(TReal, z3.ToReal(v.t) if v.ty is TInt else v.t)


def _b_bool(ex, st, args, kwargs, n, spec):
    return Val(TBool, ex.truthy(args[0], st))


def _b_sorted(ex, st, args, kwargs, n, spec):
    """sorted(seq of ints): ascending permutation (MODEL: same length, ascending, same elements;
    strictly ascending when the input has no duplicates)"""
    if kwargs:
        raise OutOfSubset('sorted with key/reverse')
    v = args[0]
    if isinstance(v, GenExp):
        lc = ast.ListComp(elt=v.node.elt, generators=v.node.generators)
        ast.copy_location(lc, v.node)
        v = ex.ex_ListComp(lc, st, spec)
    s = ex.as_seq(v, st)
    if s is None or s.ty.elem is not TInt:
        raise OutOfSubset('sorted of a non-integer sequence')
    ty = s.ty
    r = ty.fresh('sorted')
    ex.ops(st).known(ty, r)
    p, q = z3.Ints(sym.fresh_name('p') + ' ' + sym.fresh_name('q'))
    n_ = ty.f_len(s.t)
    at = ty.f_at
    st.facts.add(ty.f_len(r) == n_)
    st.facts.add(z3.ForAll([p, q], z3.Implies(z3.And(0 <= p, p < q, q < n_), at(r, p) <= at(r, q)),
                           patterns=[z3.MultiPattern(at(r, p), at(r, q))]))
    # permutation witnesses: r[p] == s[pi(p)], s[q] == r[sigma(q)], pi injective and onto
    pi = z3.Function(sym.fresh_name('sort_pi'), z3.IntSort(), z3.IntSort())
    sg = z3.Function(sym.fresh_name('sort_sigma'), z3.IntSort(), z3.IntSort())
    st.facts.add(z3.ForAll([p], z3.Implies(z3.And(0 <= p, p < n_),
                                           z3.And(0 <= pi(p), pi(p) < n_, at(r, p) == at(s.t, pi(p)),
                                                  sg(pi(p)) == p)),
                           patterns=[at(r, p)]))
    st.facts.add(z3.ForAll([q], z3.Implies(z3.And(0 <= q, q < n_),
                                           z3.And(0 <= sg(q), sg(q) < n_, at(s.t, q) == at(r, sg(q)),
                                                  pi(sg(q)) == q)),
                           patterns=[at(s.t, q)]))
    return Val(ty, r) if spec else MList(ty, r)


def _b_sum(ex, st, args, kwargs, n, spec):
    raise OutOfSubset('sum')


BUILTINS = {
    'len': _b_len, 'range': _b_range, 'zip': _b_zip, 'enumerate': _b_enumerate,
    'reversed': _b_reversed, 'list': _b_list, 'tuple': _b_tuple, 'max': _b_minmax(True),
    'min': _b_minmax(False), 'set': _b_set, 'isinstance': _b_isinstance, 'implies': _b_implies,
    'sorted': _b_sorted, 'abs': _b_abs, 'int': _b_int, 'float': _b_float, 'bool': _b_bool, 'sum': _b_sum,
    'all': None, 'any': None, 'old': None, 'rev': _b_rev, 'val': _b_val, 'atend': _b_atend,
}
