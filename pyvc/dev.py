import importlib, sys, time
from pyvc import api, symexec, solve
def main():
    mod = sys.argv[1]; only = sys.argv[2:] 
    importlib.import_module(mod)
    import os; repo = os.environ.get('VERIF_REPO', '/repo')
    allobs=[]
    for path, ms in api.MODULES.items():
        ex = symexec.get_exec(repo, ms, api.REGISTRY)
        for q, c in ms.contracts.items():
            if only and q not in only: continue
            if getattr(c, 'assumed', False): continue
            t=time.time()
            try:
                obs = symexec.verify_contract(ex, c)
            except symexec.OutOfSubset as e:
                print('OUT-OF-SUBSET', c.fid, e); continue
            print(c.fid, len(obs), 'obligations', 'paths', ex.paths, f'{time.time()-t:.2f}s')
            allobs += obs
    t=time.time()
    res = solve.solve_all(allobs, budget_ms=int(float(sys.argv[0] and 20)*1000))
    for ob, r in zip(allobs, res):
        if r['status']!='unsat':
            print(r['status'], r['backend'], f"{r['time']:.2f}", ob.fid, ob.kind, ob.label, 'path', ob.path, r['reason'], r['cex'])
    print('total', len(res), 'unsat', sum(r['status']=='unsat' for r in res), f'{time.time()-t:.1f}s', 'max', max((r['time'] for r in res), default=0))
main()
