"""pyvc.native -- runs under /venv/bin/python (pharmpy importable, no z3).

Two jobs, same contract text as the VC generator uses:
  replay <file>      : run the real function on the inputs of a replay file and evaluate the
                       contract clauses natively; exit 1 if a clause fails (reproduced), 0 if not.
  bounded <module> <qualname> <tier> : enumerate the contract's declared finite domain on the real
                       function ("bounded stand-in": labelled bounded, never counted as proved).
Output: one JSON object on the last stdout line.
"""
import ast
import copy
import importlib
import importlib.util
import json
import os
import sys
import time
import traceback

REPO = os.environ.get('VERIF_REPO', '/repo')


def load_real(path, qualname):
    """import the real function from the repository file (by file path so that a scratch copy of
    the repository given in VERIF_REPO is honoured for pure modules; package imports inside use the
    installed editable package, which points at /repo/src)."""
    rel = path
    assert rel.startswith('src/')
    modname = rel[4:-3].replace('/', '.')
    if REPO != '/repo':
        src = os.path.join(REPO, 'src')
        if src not in sys.path:
            sys.path.insert(0, src)
        for k in [k for k in sys.modules if k == 'pharmpy' or k.startswith('pharmpy.')]:
            del sys.modules[k]
    mod = importlib.import_module(modname)
    obj = mod
    for part in qualname.split('.'):
        obj = getattr(obj, part)
    return obj, mod


class _OldRewriter(ast.NodeTransformer):
    def __init__(self):
        self.olds = []

    def visit_Call(self, node):
        if isinstance(node.func, ast.Name) and node.func.id == 'old' and len(node.args) == 1:
            self.olds.append(node.args[0])
            return ast.copy_location(ast.Name(id=f'__old_{len(self.olds) - 1}', ctx=ast.Load()), node)
        return self.generic_visit(node)


class _Macro(ast.NodeTransformer):
    def __init__(self, defs):
        self.defs = defs

    def visit_Name(self, node):
        if node.id in self.defs:
            return _Macro(self.defs).visit(ast.parse(self.defs[node.id].strip(), mode='eval').body)
        return node


def eval_clause(src, ns, old_ns):
    tree = ast.parse(src.strip(), mode='eval')
    if ns.get('__defs__'):
        tree = ast.fix_missing_locations(_Macro(ns['__defs__']).visit(tree))
    rw = _OldRewriter()
    tree = ast.fix_missing_locations(rw.visit(tree))
    ns = dict(ns)
    for i, e in enumerate(rw.olds):
        ns[f'__old_{i}'] = eval(compile(ast.fix_missing_locations(ast.Expression(e)), '<old>', 'eval'),
                                dict(old_ns))
    return eval(compile(tree, '<clause>', 'eval'), ns)


class Opq:
    """native stand-in for an opaque value of a counter-model: identity given by `id`."""

    def __init__(self, name, ident, attrs):
        self.__dict__.update(attrs)
        self._name, self._id = name, ident

    def __eq__(self, other):
        return isinstance(other, Opq) and self._id == other._id

    def __hash__(self):
        return hash(self._id)

    def __repr__(self):
        return f'<{self._name} {self._id}>'


def decode(v):
    if isinstance(v, dict) and 'opaque' in v:
        return Opq(v['opaque'], v['id'], {k: decode(x) for k, x in v.get('attrs', {}).items()})
    if isinstance(v, dict) and '__tuple__' in v:
        return tuple(decode(x) for x in v['__tuple__'])
    if isinstance(v, dict) and '__set__' in v:
        return set(decode(x) for x in v['__set__'])
    if isinstance(v, list):
        return [decode(x) for x in v]
    if isinstance(v, dict):
        return {k: decode(x) for k, x in v.items()}
    return v


def spec_namespace(ms):
    from . import api

    ns = {'implies': api.implies, 'rev': api.rev, 'val': api.val}
    for name, f in ms.folds.items():
        ns[name] = f.native
    ns.update(ms.natives)
    return ns


def run_contract(c, kwargs, real=None):
    """run the real function under its contract; returns (ok, detail)"""
    if real is None:
        real, _ = load_real(c.module.path, c.qualname)
    ns = spec_namespace(c.module)
    ns['__defs__'] = getattr(c, 'defs', None)
    adapt = getattr(c, 'native_adapter', None)
    old_ns = dict(ns)
    old_ns.update(copy.deepcopy(kwargs))
    ns_pre = dict(ns)
    ns_pre.update(kwargs)
    for r in c.requires:
        try:
            if not eval_clause(r, ns_pre, old_ns):
                return None, f'precondition not met: {r}'
        except Exception as e:
            return None, f'precondition not evaluable: {r}: {e!r}'
    try:
        call_kwargs = adapt(kwargs) if adapt else kwargs
        res = real(**call_kwargs)
        if c.generator:
            res = list(res)
    except Exception as e:
        name = type(e).__name__
        if name in c.raises:
            cond = c.raises[name]
            if cond is True or eval_clause(cond, ns_pre, old_ns):
                return True, f'raised {name} as specified'
            return False, f'raised {name} although not ({cond})'
        return False, f'unexpected exception {name}: {e}'
    ns_post = dict(ns)
    ns_post.update(kwargs)
    ns_post['result'] = res
    for exc, cond in c.raises.items():
        if cond is not True and getattr(c, 'raises_iff', True):
            if eval_clause(cond, ns_pre, old_ns):
                return False, f'returned normally although ({cond}) requires {exc}'
    for e in list(c.ensures) + list(c.ensures_bounded):
        try:
            ok = eval_clause(e, ns_post, old_ns)
        except Exception as ex:
            return False, f'postcondition not evaluable: {e}: {ex!r}'
        if not ok:
            return False, f'postcondition fails: {e}'
    return True, 'ok'


def find_contract(sidecar, fid):
    from . import api

    importlib.import_module(sidecar)
    return api.REGISTRY[fid]


def cmd_replay(path):
    rp = json.load(open(path))
    if rp.get('kind') == 'custom':
        mod = importlib.import_module(rp['sidecar'])
        ok, detail = getattr(mod, rp['replay_fn'])(rp)
    else:
        c = find_contract(rp['sidecar'], rp['fid'])
        kwargs = {k: decode(v) for k, v in rp['inputs'].items()}
        ok, detail = run_contract(c, kwargs)
    print(json.dumps({'reproduced': ok is False, 'vacuous': ok is None, 'detail': detail}))
    return 1 if ok is False else 0


def cmd_bounded(sidecar, fid, tier):
    c = find_contract(sidecar, fid)
    mod = importlib.import_module(sidecar)
    gen = getattr(mod, c.domain)
    real, _ = load_real(c.module.path, c.qualname)
    t0 = time.time()
    n = nontriv = 0
    samples = []
    fail = None
    for kwargs in gen(tier):
        n += 1
        snapshot = copy.deepcopy(kwargs)
        try:
            ok, detail = run_contract(c, kwargs, real)
        except Exception:
            ok, detail = False, 'checker error: ' + traceback.format_exc()[-400:]
        if ok is None:
            continue
        nontriv += 1
        if len(samples) < 3 and n % 7 == 1:
            samples.append(repr(snapshot)[:300])
        if ok is False:
            fail = {'inputs': encode(snapshot), 'detail': detail}
            break
    print(json.dumps({'cases': n, 'nontrivial': nontriv, 'fail': fail, 'samples': samples,
                      'wall_s': round(time.time() - t0, 2)}))
    return 1 if fail else 0


def encode(v):
    if isinstance(v, tuple):
        return {'__tuple__': [encode(x) for x in v]}
    if isinstance(v, list):
        return [encode(x) for x in v]
    if isinstance(v, (set, frozenset)):
        return {'__set__': sorted((encode(x) for x in v), key=repr)}
    if isinstance(v, dict):
        return {k: encode(x) for k, x in v.items()}
    if isinstance(v, Opq):
        return {'opaque': v._name, 'id': v._id,
                'attrs': {k: encode(x) for k, x in v.__dict__.items() if not k.startswith('_')}}
    if isinstance(v, (int, float, str, bool)) or v is None:
        return v
    return repr(v)


def main(argv):
    sys.path.insert(0, os.path.dirname(os.path.dirname(os.path.abspath(__file__))))
    if REPO != '/repo':
        # checks run against a scratch copy of the repository: its sources win over the
        # editable install of /repo
        sys.path.insert(0, os.path.join(REPO, 'src'))
    if argv[0] == 'replay':
        return cmd_replay(argv[1])
    if argv[0] == 'bounded':
        return cmd_bounded(argv[1], argv[2], argv[3])
    if argv[0] == 'custom':
        mod = importlib.import_module(argv[1])
        t0 = time.time()
        out = getattr(mod, argv[2])(*argv[3:])
        out.setdefault('wall_s', round(time.time() - t0, 2))
        print(json.dumps(out))
        return 1 if (out.get('fail') or out.get('fails')) else 0
    raise SystemExit('usage')


if __name__ == '__main__':
    sys.path.insert(0, os.path.dirname(os.path.dirname(os.path.abspath(__file__))))
    from pyvc import native as _n  # one module object (sidecars import pyvc.native.Opq)

    sys.exit(_n.main(sys.argv[1:]))
