"""pyvc.sym -- types, sorts and the sequence theory used by the VC generator.

Value model (see DESIGN.md 1.1, as built):
  * int  = mathematical integers (exact for Python ints)
  * float = reals (arithmetic as real arithmetic: ASSUMPTION, listed in evidence)
  * bool
  * str  = uninterpreted sort `Str`; literals are pairwise distinct constants
  * tuples of fixed arity = SMT datatypes
  * sequences (list / tuple of unknown length) = one uninterpreted sort per element type with
    `len`/`at` functions (Dafny/Boogie style).  The intended model of the sort is "finite Python
    lists"; every fact asserted about `at` is in-range only, so z3 equality on the sort is list
    equality and extensionality (skolemised per compared pair) is sound.
  * opaque objects = uninterpreted sorts with declared attribute functions
"""
import itertools
import z3

_ctr = itertools.count()


def fresh_name(prefix):
    return f'{prefix}!{next(_ctr)}'


def reset_names():
    global _ctr
    _ctr = itertools.count()


class Ty:
    _sort = None

    def key(self):
        raise NotImplementedError

    def sort(self):
        raise NotImplementedError

    def __eq__(self, other):
        return isinstance(other, Ty) and self.key() == other.key()

    def __hash__(self):
        return hash(self.key())

    def __repr__(self):
        return self.key()

    def fresh(self, prefix='v'):
        return z3.Const(fresh_name(prefix), self.sort())


class TIntC(Ty):
    def key(self):
        return 'Int'

    def sort(self):
        return z3.IntSort()


class TRealC(Ty):
    def key(self):
        return 'Real'

    def sort(self):
        return z3.RealSort()


class TBoolC(Ty):
    def key(self):
        return 'Bool'

    def sort(self):
        return z3.BoolSort()


_sorts = {}


def usort(name):
    if name not in _sorts:
        _sorts[name] = z3.DeclareSort(name)
    return _sorts[name]


class TStrC(Ty):
    def key(self):
        return 'Str'

    def sort(self):
        return usort('Str')


class TNoneC(Ty):
    def key(self):
        return 'NoneT'

    def sort(self):
        return usort('NoneT')


TInt, TReal, TBool, TStr, TNone = TIntC(), TRealC(), TBoolC(), TStrC(), TNoneC()

_str_literals = {}


def str_lit(s):
    if s not in _str_literals:
        _str_literals[s] = z3.Const('str!' + repr(s), TStr.sort())
    return _str_literals[s]


def str_distinct_fact(terms_text):
    """Distinctness of the string literals that occur in a VC."""
    used = [c for s, c in sorted(_str_literals.items()) if c.decl().name() in terms_text]
    if len(used) > 1:
        return z3.Distinct(*used)
    return None


_none_const = None


def none_term():
    global _none_const
    if _none_const is None:
        _none_const = z3.Const('None!', TNone.sort())
    return _none_const


class TOpaque(Ty):
    """Uninterpreted sort with declared attribute functions (attr name -> Ty)."""

    _registry = {}

    def __new__(cls, name, attrs=None):
        if name in cls._registry:
            obj = cls._registry[name]
            if attrs:
                obj.attrs.update(attrs)
            return obj
        obj = super().__new__(cls)
        obj.name = name
        obj.attrs = dict(attrs or {})
        obj._fns = {}
        cls._registry[name] = obj
        return obj

    def __init__(self, name, attrs=None):
        pass

    def key(self):
        return self.name

    def sort(self):
        return usort(self.name)

    def attr_fn(self, attr):
        if attr not in self._fns:
            self._fns[attr] = z3.Function(f'{self.name}.{attr}', self.sort(), self.attrs[attr].sort())
        return self._fns[attr]


_datatypes = {}


class TTuple(Ty):
    def __init__(self, *items):
        self.items = tuple(items)

    def key(self):
        return 'Tup<' + ','.join(i.key() for i in self.items) + '>'

    def sort(self):
        k = self.key()
        if k not in _datatypes:
            d = z3.Datatype(_mangle(k))
            d.declare('mk_' + _mangle(k), *[(f'f{i}_{_mangle(k)}', t.sort()) for i, t in enumerate(self.items)])
            _datatypes[k] = d.create()
        return _datatypes[k]

    def mk(self, *terms):
        s = self.sort()
        return s.constructor(0)(*terms)

    def get(self, term, i):
        return self.sort().accessor(0, i)(term)


class TOption(Ty):
    def __init__(self, inner):
        self.inner = inner

    def key(self):
        return 'Opt<' + self.inner.key() + '>'

    def sort(self):
        k = self.key()
        if k not in _datatypes:
            d = z3.Datatype(_mangle(k))
            d.declare('none_' + _mangle(k))
            d.declare('some_' + _mangle(k), ('val_' + _mangle(k), self.inner.sort()))
            _datatypes[k] = d.create()
        return _datatypes[k]

    def none(self):
        return self.sort().constructor(0)()

    def some(self, t):
        return self.sort().constructor(1)(t)

    def is_none(self, t):
        return self.sort().recognizer(0)(t)

    def val(self, t):
        return self.sort().accessor(1, 0)(t)


def _mangle(k):
    return k.replace('<', '_L').replace('>', 'R_').replace(',', '_')


class TSeq(Ty):
    """Sequence of `elem`.  kind is 'list' or 'tuple' (Python-level only; same sort)."""

    def __init__(self, elem, kind='list'):
        self.elem = elem
        self.kind = kind

    def key(self):
        return 'Seq<' + self.elem.key() + '>'

    def sort(self):
        return usort(_mangle(self.key()))

    # function symbols ------------------------------------------------------------------------
    def _fn(self, name, *sig):
        k = (self.key(), name)
        if k not in _seqfns:
            _seqfns[k] = z3.Function(f'{name}_{_mangle(self.elem.key())}', *sig)
        return _seqfns[k]

    @property
    def f_len(self):
        return self._fn('len', self.sort(), z3.IntSort())

    @property
    def f_at(self):
        return self._fn('at', self.sort(), z3.IntSort(), self.elem.sort())

    @property
    def f_empty(self):
        k = (self.key(), 'empty')
        if k not in _seqfns:
            _seqfns[k] = z3.Const(f'empty_{_mangle(self.elem.key())}', self.sort())
        return _seqfns[k]

    @property
    def f_build(self):
        return self._fn('build', self.sort(), self.elem.sort(), self.sort())

    @property
    def f_concat(self):
        return self._fn('concat', self.sort(), self.sort(), self.sort())

    @property
    def f_slice(self):
        return self._fn('slice', self.sort(), z3.IntSort(), z3.IntSort(), self.sort())

    @property
    def f_update(self):
        return self._fn('update', self.sort(), z3.IntSort(), self.elem.sort(), self.sort())

    @property
    def f_rev(self):
        return self._fn('rev', self.sort(), self.sort())

    @property
    def f_repeat(self):
        return self._fn('repeat', self.elem.sort(), z3.IntSort(), self.sort())

    def with_kind(self, kind):
        return TSeq(self.elem, kind)


_seqfns = {}


def has_bound_vars(t):
    """True if the term contains de-Bruijn variables (i.e. is under a quantifier being built) or
    one of the constants currently used as quantifier-bound placeholders."""
    return bool(_bound_stack) and _mentions(t, _bound_stack)


_bound_stack = []  # z3 constants currently acting as bound variables


def _mentions(t, consts):
    ids = {c.get_id() for c in consts}
    seen = set()
    todo = [t]
    while todo:
        x = todo.pop()
        i = x.get_id()
        if i in seen:
            continue
        seen.add(i)
        if i in ids:
            return True
        if z3.is_app(x):
            todo.extend(x.children())
        elif z3.is_quantifier(x):
            todo.append(x.body())
    return False


_ite_cache = {}


def contains_ite(t):
    i = t.get_id()
    if i in _ite_cache:
        return _ite_cache[i][1]
    r = False
    if z3.is_app(t):
        if t.decl().kind() == z3.Z3_OP_ITE:
            r = True
        else:
            r = any(contains_ite(c) for c in t.children())
    elif z3.is_quantifier(t):
        r = True
    _ite_cache[i] = (t, r)  # keep t alive: z3 reuses ids of collected terms
    return r


class Facts:
    """Collector of axiom instances for ground sequence terms created on a path."""

    def __init__(self):
        self.facts = []
        self._seen = set()
        self.fold_depth = 0

    def add(self, f):
        i = f.get_id()
        if i not in self._seen:
            self._seen.add(i)
            self.facts.append(f)

    def clone(self):
        n = Facts()
        n.facts = list(self.facts)
        n._seen = set(self._seen)
        return n


def _forall(j, body, pats):
    return z3.ForAll([j], body, patterns=pats)


class SeqOps:
    """Creates sequence terms and records the defining (in-range) facts in `facts`.
    `folds` is a list of registered fold spec functions to instantiate (see api.Fold)."""

    def __init__(self, facts, folds=(), ex=None, st=None):
        self.facts = facts
        self.folds = list(folds)
        self.ex, self.st = ex, st

    def _ground(self, *terms):
        return not any(has_bound_vars(t) for t in terms)

    def _named(self, ty, r):
        """z3 rejects patterns containing `if`; give such terms a name."""
        if contains_ite(r) and self._ground(r):
            c = ty.fresh('nm')
            self.facts.add(c == r)
            return c
        return r

    def known(self, ty, t):
        """Call for every sequence term that enters the state (fresh constants included)."""
        if self._ground(t):
            self.facts.add(ty.f_len(t) >= 0)
        return t

    def empty(self, ty):
        e = ty.f_empty
        self.facts.add(ty.f_len(e) == 0)
        self._fold_inst(ty, 'empty', e)
        return e

    def build(self, ty, s, v):
        r = self._named(ty, ty.f_build(s, v))
        if self._ground(s, v):
            j = z3.Int(fresh_name('j'))
            self.facts.add(ty.f_len(r) == ty.f_len(s) + 1)
            self.facts.add(ty.f_at(r, ty.f_len(s)) == v)
            self.facts.add(
                _forall(
                    j,
                    z3.Implies(z3.And(0 <= j, j < ty.f_len(s)), ty.f_at(r, j) == ty.f_at(s, j)),
                    [ty.f_at(r, j)],
                )
            )
            self.facts.add(ty.f_len(s) >= 0)
            self._fold_inst(ty, 'build', r, s, v)
        return r

    def concat(self, ty, a, b):
        # a + [x]  is represented as build(a, x) (keeps fold instances in snoc form)
        if z3.is_app(b) and b.num_args() == 2 and z3.eq(b.decl(), ty.f_build) \
                and z3.eq(b.arg(0), ty.f_empty):
            return self.build(ty, a, b.arg(1))
        if z3.eq(a, ty.f_empty):
            return b
        if z3.eq(b, ty.f_empty):
            return a
        r = self._named(ty, ty.f_concat(a, b))
        if self._ground(a, b):
            j = z3.Int(fresh_name('j'))
            la, lb = ty.f_len(a), ty.f_len(b)
            self.facts.add(ty.f_len(r) == la + lb)
            self.facts.add(la >= 0)
            self.facts.add(lb >= 0)
            self.facts.add(
                _forall(
                    j,
                    z3.Implies(
                        z3.And(0 <= j, j < la + lb),
                        ty.f_at(r, j) == z3.If(j < la, ty.f_at(a, j), ty.f_at(b, j - la)),
                    ),
                    [ty.f_at(r, j)],
                )
            )
            # reverse-direction instances: elements of b seen through r
            self.facts.add(
                _forall(
                    j,
                    z3.Implies(z3.And(0 <= j, j < lb), ty.f_at(b, j) == ty.f_at(r, j + la)),
                    [ty.f_at(b, j)],
                )
            )
            self._fold_inst(ty, 'concat', r, a, b)
        return r

    def norm_bound(self, ty, s, i, default_end):
        """Python slice bound normalisation (step None): clamp into [0, len]."""
        n = ty.f_len(s)
        if i is None:
            return n if default_end else z3.IntVal(0)
        return z3.If(i < 0, z3.If(i + n < 0, 0, i + n), z3.If(i > n, n, i))

    def slice(self, ty, s, lo, hi):
        """s[lo:hi] with Python clamping; lo/hi are Int terms or None."""
        n = ty.f_len(s)
        lo2 = z3.simplify(self.norm_bound(ty, s, lo, False))
        hi2 = z3.simplify(self.norm_bound(ty, s, hi, True))
        hi3 = z3.simplify(z3.If(hi2 < lo2, lo2, hi2))
        r = self._named(ty, ty.f_slice(s, lo2, hi3))
        if self._ground(s, lo2, hi3):
            j = z3.Int(fresh_name('j'))
            self.facts.add(n >= 0)
            self.facts.add(ty.f_len(r) == hi3 - lo2)
            self.facts.add(
                _forall(
                    j,
                    z3.Implies(z3.And(0 <= j, j < hi3 - lo2), ty.f_at(r, j) == ty.f_at(s, lo2 + j)),
                    [ty.f_at(r, j)],
                )
            )
            self.facts.add(z3.Implies(hi3 == lo2, r == self.empty(ty)))
            # the full slice is the sequence itself
            self.facts.add(z3.Implies(z3.And(lo2 == 0, hi3 == n), r == s))
        return r

    def prefix_step(self, ty, s, k):
        """axiom instance  s[:k+1] == s[:k] + [s[k]]  for 0 <= k < len(s)  (valid in the intended
        model; used when a loop walks over s so that fold spec functions can follow)"""
        if not self._ground(s, k):
            return
        a = self.slice(ty, s, z3.IntVal(0), k + 1)
        b = self.build(ty, self.slice(ty, s, z3.IntVal(0), k), ty.f_at(s, k))
        self.facts.add(z3.Implies(z3.And(0 <= k, k < ty.f_len(s)), a == b))
        full = self.slice(ty, s, z3.IntVal(0), ty.f_len(s))
        self.facts.add(full == s)

    def update(self, ty, s, i, v):
        r = self._named(ty, ty.f_update(s, i, v))
        if self._ground(s, i, v):
            j = z3.Int(fresh_name('j'))
            self.facts.add(ty.f_len(r) == ty.f_len(s))
            self.facts.add(z3.Implies(z3.And(0 <= i, i < ty.f_len(s)), ty.f_at(r, i) == v))
            self.facts.add(
                _forall(
                    j,
                    z3.Implies(
                        z3.And(0 <= j, j < ty.f_len(s), j != i), ty.f_at(r, j) == ty.f_at(s, j)
                    ),
                    [ty.f_at(r, j)],
                )
            )
        return r

    def rev(self, ty, s):
        r = self._named(ty, ty.f_rev(s))
        if self._ground(s):
            j = z3.Int(fresh_name('j'))
            n = ty.f_len(s)
            self.facts.add(ty.f_len(r) == n)
            self.facts.add(n >= 0)
            self.facts.add(
                _forall(
                    j,
                    z3.Implies(z3.And(0 <= j, j < n), ty.f_at(r, j) == ty.f_at(s, n - 1 - j)),
                    [ty.f_at(r, j)],
                )
            )
            # rev(s + [v]) == [v] + rev(s)   (valid instance; lets folds follow appended lists)
            if z3.is_app(s) and s.num_args() == 2 and z3.eq(s.decl(), ty.f_build):
                s0, v = s.arg(0), s.arg(1)
                one = self.build(ty, self.empty(ty), v)
                self.facts.add(r == self.concat(ty, one, self.rev(ty, s0)))
            if z3.eq(s, ty.f_empty):
                self.facts.add(r == s)
        return r

    def repeat(self, ty, v, n):
        """[v] * n"""
        r = self._named(ty, ty.f_repeat(v, n))
        if self._ground(v, n):
            j = z3.Int(fresh_name('j'))
            self.facts.add(ty.f_len(r) == z3.If(n < 0, 0, n))
            self.facts.add(
                _forall(j, z3.Implies(z3.And(0 <= j, j < n), ty.f_at(r, j) == v), [ty.f_at(r, j)])
            )
        return r

    def tabulate(self, ty, n, fn):
        """fresh sequence r with len n and at(r,k) == fn(k) for 0 <= k < n (comprehensions)."""
        r = ty.fresh('tab')
        k = z3.Int(fresh_name('k'))
        _bound_stack.append(k)
        try:
            body = fn(k)
        finally:
            _bound_stack.pop()
        self.facts.add(ty.f_len(r) == z3.If(n < 0, 0, n))
        self.facts.add(
            _forall(k, z3.Implies(z3.And(0 <= k, k < n), ty.f_at(r, k) == body), [ty.f_at(r, k)])
        )
        return r

    def ext_eq(self, ty, a, b):
        """Python `a == b` on sequences: z3 equality plus a skolemised extensionality instance."""
        eq = a == b
        if self._ground(a, b) and not z3.eq(a, b):
            sk = z3.Int(fresh_name('sk'))
            self.facts.add(
                z3.Or(
                    eq,
                    ty.f_len(a) != ty.f_len(b),
                    z3.And(0 <= sk, sk < ty.f_len(a), ty.f_at(a, sk) != ty.f_at(b, sk)),
                )
            )
        return eq

    def _fold_inst(self, ty, how, r, *args):
        if self.facts.fold_depth > 0:
            return
        for f in self.folds:
            if f.dom.key() == ty.key():
                self.facts.fold_depth += 1
                try:
                    f.instantiate(self, how, r, *args)
                finally:
                    self.facts.fold_depth -= 1
