"""pyvc.solve -- discharge obligations: z3 (Python API) first, /usr/bin/cvc5 on z3's unknowns.

Obligations are built in the parent; workers are forked so they inherit the z3 terms.
Status per obligation: 'unsat' (discharged), 'sat' (counter-model, to be replayed natively),
'unknown' (neither solver decided within the budget).
"""
import hashlib
import multiprocessing as mp
import os
import subprocess
import tempfile
import time

import z3

from . import sym

_OBS = []
WORK = os.environ.get('VERIF_WORK', os.path.join(os.path.dirname(os.path.dirname(__file__)), '.work'))


def vc_text(ob):
    s = z3.Solver()
    s.add(ob.formula())
    txt = s.sexpr()
    d = sym.str_distinct_fact(txt)
    if d is not None:
        s.add(d)
        txt = s.sexpr()
    return txt, s


def vc_hash(txt):
    return hashlib.sha256(txt.encode()).hexdigest()[:16]


def model_value(m, v, depth=0):
    """z3 model value of a symbolic input -> plain Python data (for native replay)."""
    from .symexec import MList, MSet, PyTuple, Val
    from .sym import TBool, TInt, TNone, TOpaque, TOption, TReal, TSeq, TStr, TTuple

    def conv(ty, t, d=0):
        if ty is TNone:
            return None
        if d > 3:
            return '...'

        e = m.eval(t, model_completion=True)
        if ty is TInt:
            return e.as_long()
        if ty is TBool:
            return z3.is_true(e)
        if ty is TReal:
            if z3.is_rational_value(e):
                n, d = e.numerator_as_long(), e.denominator_as_long()
                return n / d
            return {'algebraic': str(e)}
        if ty is TStr:
            nm = str(e)
            for s, c in sym._str_literals.items():
                if z3.is_true(m.eval(c == e, model_completion=True)):
                    return s
            return 's_' + nm.replace('!', '_')
        if isinstance(ty, TOpaque):
            nm = str(e)
            return {'opaque': ty.name, 'id': nm,
                    'attrs': {a: conv(aty, ty.attr_fn(a)(e), d + 1) for a, aty in ty.attrs.items()}}
        if isinstance(ty, TTuple):
            return tuple(conv(ity, ty.get(e, i), d + 1) for i, ity in enumerate(ty.items))
        if isinstance(ty, TOption):
            if z3.is_true(m.eval(ty.is_none(e), model_completion=True)):
                return None
            return conv(ty.inner, ty.val(e), d + 1)
        if isinstance(ty, TSeq):
            n = m.eval(ty.f_len(e), model_completion=True).as_long()
            n = max(0, min(n, 12))
            items = [conv(ty.elem, ty.f_at(e, z3.IntVal(i)), d + 1) for i in range(n)]
            return tuple(items) if ty.kind == 'tuple' else items
        return str(e)

    if isinstance(v, MSet):
        e = m.eval(v.t, model_completion=True)
        elems = []
        if v.elem is TInt:
            cands = [z3.IntVal(i) for i in range(-2, 9)]
        else:
            try:
                cands = list(m.get_universe(v.elem.sort()) or [])
            except Exception:
                cands = []
            if v.elem is TStr:
                cands += list(sym._str_literals.values())
        for c in cands:
            if z3.is_true(m.eval(z3.Select(e, c), model_completion=True)):
                x = conv(v.elem, c)
                if x not in elems:
                    elems.append(x)
        return {'__set__': elems}
    if isinstance(v, (Val, MList)):
        return conv(v.ty, v.t)
    if isinstance(v, PyTuple):
        return tuple(model_value(m, i) for i in v.items)
    return None


def small_constraints(inputs, bound):
    from .symexec import MList, Val
    from .sym import TInt, TSeq

    cs = []

    def walk(ty, t, depth):
        if ty is TInt:
            cs.append(z3.And(t >= -bound - 1, t <= bound + 1))
        elif isinstance(ty, TSeq):
            cs.append(ty.f_len(t) <= bound)
            if isinstance(ty.elem, (TSeq,)) or ty.elem is TInt:
                q = z3.Int(sym.fresh_name('sm'))
                inner = []
                saved = list(cs)
                del cs[:]
                walk(ty.elem, ty.f_at(t, q), depth + 1)
                inner, cs[:] = list(cs), saved
                if ty.elem is TInt:
                    inner = []  # element values unconstrained (only lengths matter)
                if inner:
                    cs.append(z3.ForAll([q], z3.Implies(z3.And(0 <= q, q < ty.f_len(t)), z3.And(*inner))))

    for v in inputs.values():
        if isinstance(v, (Val, MList)) and v.t is not None:
            walk(v.ty, v.t, 0)
    return cs


def _solve_one(idx_budget):
    idx, budget_ms, use_cvc5 = idx_budget
    ob = _OBS[idx]
    t0 = time.time()
    txt, s0 = vc_text(ob)
    h = vc_hash(txt)
    res = {'idx': idx, 'hash': h, 'status': 'unknown', 'backend': None, 'time': 0.0, 'cex': None,
           'reason': ''}
    # 1st attempt: pure E-matching (no model-based quantifier instantiation): proofs of valid VCs
    # over quantified invariants are found this way or not at all, and it fails fast
    s1 = z3.Solver()
    s1.set('timeout', min(budget_ms, 6000))
    s1.set('smt.mbqi', False)
    s1.set('smt.auto_config', False)
    s1.add(s0.assertions())
    try:
        r1 = s1.check()
    except z3.Z3Exception:  # pragma: no cover
        r1 = z3.unknown
    if r1 == z3.unsat:
        res.update(status='unsat', backend='z3(ematching)', time=time.time() - t0)
        return res
    s = z3.Solver()
    s.set('timeout', budget_ms)
    s.add(s0.assertions())
    try:
        r = s.check()
    except z3.Z3Exception as e:  # pragma: no cover
        r = z3.unknown
        res['reason'] = f'z3 exception {e}'
    res['time'] = time.time() - t0
    if r == z3.unsat:
        res.update(status='unsat', backend='z3')
        return res
    if r == z3.sat:
        m = s.model()
        # prefer a small counter-model (short sequences, small integers) for native replay
        for bound in (2, 4):
            s3 = z3.Solver()
            s3.set('timeout', min(budget_ms, 5000))
            s3.add(s0.assertions())
            s3.add(*small_constraints(ob.inputs, bound))
            if s3.check() == z3.sat:
                m = s3.model()
                break
        try:
            cex = {k: model_value(m, v) for k, v in ob.inputs.items()}
        except Exception as e:  # pragma: no cover
            cex = {'_error': repr(e)}
        res.update(status='sat', backend='z3', cex=cex)
        return res
    res['reason'] = 'z3: ' + s.reason_unknown()
    if use_cvc5:
        os.makedirs(WORK, exist_ok=True)
        fd, path = tempfile.mkstemp(suffix='.smt2', dir=WORK)
        with os.fdopen(fd, 'w') as f:
            f.write('(set-logic ALL)\n' + txt + '\n(check-sat)\n')
        try:
            p = subprocess.run(['/usr/bin/cvc5', '--tlimit=%d' % budget_ms, '--strings-exp', path],
                               capture_output=True, text=True, timeout=budget_ms / 1000 + 5)
            out = p.stdout.strip().splitlines()
            ans = out[0] if out else ''
            if ans == 'unsat':
                res.update(status='unsat', backend='cvc5', time=time.time() - t0)
            else:
                res['reason'] += f'; cvc5: {ans or p.stderr.strip()[:200]}'
        except subprocess.TimeoutExpired:
            res['reason'] += '; cvc5: timeout'
        finally:
            try:
                os.unlink(path)
            except OSError:
                pass
    res['time'] = time.time() - t0
    return res


def solve_all(obligations, budget_ms=20000, procs=None, use_cvc5=True):
    global _OBS
    _OBS = obligations
    procs = procs or min(16, max(1, os.cpu_count() or 1))
    if not obligations:
        return []
    ctx = mp.get_context('fork')
    tasks = [(i, budget_ms, use_cvc5) for i in range(len(obligations))]
    if procs == 1 or len(obligations) == 1:
        return [_solve_one(t) for t in tasks]
    with ctx.Pool(min(procs, len(obligations))) as pool:
        return pool.map(_solve_one, tasks, chunksize=1)


# ------------------------------------------------------------------------------------------------
# finite-instantiation query (refutation only): every quantifier over Int is expanded over a small
# domain and the named Int inputs are restricted to it.  A model found this way is only a
# candidate: it is always replayed natively before anything is reported.
# ------------------------------------------------------------------------------------------------
def expand_quantifiers(f, dom):
    cache = {}

    def go(t):
        i = t.get_id()
        if i in cache:
            return cache[i][1]
        if z3.is_quantifier(t):
            n = t.num_vars()
            body = t.body()
            sorts = [t.var_sort(k) for k in range(n)]
            if all(s == z3.IntSort() for s in sorts):
                import itertools
                insts = []
                for combo in itertools.product(dom, repeat=n):
                    # de Bruijn: var 0 is the LAST bound variable
                    subst = [z3.IntVal(v) for v in reversed(combo)]
                    insts.append(go(z3.substitute_vars(body, *subst)))
                r = z3.And(*insts) if t.is_forall() else z3.Or(*insts)
            else:
                r = t
        elif z3.is_app(t) and t.num_args() > 0:
            r = t.decl()(*[go(c) for c in t.children()])
        else:
            r = t
        cache[i] = (t, r)  # keep t alive: z3 reuses ids of collected terms
        return r

    return go(f)


def finite_refute(ob, dom=(0, 1, 2, 3), timeout_ms=20000, extra=()):
    s = z3.Solver()
    s.set('timeout', timeout_ms)
    for h in ob.hyps:
        s.add(expand_quantifiers(h, dom))
    s.add(expand_quantifiers(z3.Not(ob.goal), dom))
    for e in extra:
        s.add(e)
    r = s.check()
    if r == z3.sat:
        return s.model()
    return None
