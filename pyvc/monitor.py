"""pyvc.monitor -- Owicki-Gries style verification of monitor-protected classes.

A method of the class is executed symbolically by an arbitrary thread `tid`.  It is cut into
atomic *segments* at the points where other threads may run: `yield` of a @contextmanager (the
`with` body runs there) and `Condition.wait()`.  At every cut (and at method exit) the sidecar's
invariant clauses and frame clauses are proof obligations; the next segment starts from a havoc'd
global state that satisfies the invariant plus the thread-local knowledge the sidecar states for
that point.  An invariant preserved by every segment of every method, executed by an arbitrary
thread from an arbitrary invariant state, holds in every interleaving of any number of threads.

Loops `while guard: cond.wait()` are unrolled: the state after the first wait is already the
generic one, so a second wait on the same path ends the path (covered).
"""
import ast

import z3

from . import sym
from .symexec import (NONE, BoundMethod, CounterVal, Exec, LockVal, OutOfSubset, PyDict, SObj, State,
                      Val, BoolV)
from .sym import TBool, TInt


class MonitorSpec:
    """Base class of the sidecar description of one monitor class."""

    name = ''
    protected = {}  # field name -> name of the lock field that must be held to touch it

    def setup(self, ex, st):
        raise NotImplementedError

    def havoc(self, ex, st):
        raise NotImplementedError

    def inv(self, ex, st):
        return []

    def frame(self, ex, st, pre):
        return []

    def snapshot(self, ex, st):
        return {}

    def local_pre(self, ex, st, point):
        return []

    def before_yield(self, ex, st, node):
        pass

    def after_yield(self, ex, st):
        pass

    def on_raise(self, ex, st, exc, lineno):
        pass

    def on_exit(self, ex, st):
        pass

    def normalize(self, ex, st):
        """give the current state arrays names (patterns must not contain `if`)"""

    @staticmethod
    def named(st, term, prefix):
        c = z3.Const(sym.fresh_name(prefix), term.sort())
        st.assume(c == term)
        return c


class MonitorExec(Exec):
    def verify_method(self, c, mspec):
        fnode = self._funcs.get(c.qualname)
        if fnode is None:
            from .symexec import ContractStale
            raise ContractStale(f'{c.fid}: method not found')
        self.c, self.fnode, self.mspec = c, fnode, mspec
        from .symexec import loops_in_order
        self.loops = [l for l in loops_in_order(fnode) if isinstance(l, ast.For)] if c.loops else []
        sym.reset_names()
        st = State()
        self.inputs = {}
        tid = z3.Int('tid')
        st.mon['tid'] = tid
        st.assume(tid != 0)
        mspec.setup(self, st)
        for name, ty in c.params.items():
            v = self.fresh_val(ty.resolve(), st, 'in_' + name)
            st.env[name] = v
            self.inputs[name] = v
        self.inputs['tid'] = Val(TInt, tid)
        self.entry_old = {}
        st.mon['bal'] = {}
        st.mon['waits'] = 0
        st.mon['yielded'] = False
        st.mon['cut'] = False
        self.segment_start(st, 'entry')
        nob = len(self.obligations)
        for s, sig in self.exec_block(fnode.body, st):
            if s.mon.get('cut'):
                continue
            self.paths += 1
            s.mon['exit_sig'] = sig
            if sig[0] == 'raise':
                self.mspec.on_raise(self, s, sig[1], sig[2])
            self.segment_end(s, 'exit:' + sig[0] + (':' + sig[1] if sig[0] == 'raise' else ''), fnode)
            for lk, b in s.mon['bal'].items():
                self.oblige(s, 'lock-balance', f'{lk} released as often as acquired at method exit',
                            b == 0, fnode.lineno, f'balance({lk}) == 0')
            self.mspec.on_exit(self, s)
        return self.obligations[nob:]

    def oblige(self, st, kind, label, goal, lineno, clause=None, keep=False):
        n = len(self.obligations)
        super().oblige(st, kind, label, goal, lineno, clause, keep)
        for ob in self.obligations[n:]:
            ob.mon = {'pre': st.mon.get('pre'), 'tid': st.mon['tid'], 'spec': self.mspec,
                      'env': dict(st.env)}

    # segments ---------------------------------------------------------------------------------
    def segment_start(self, st, point):
        st.mon['released'] = {}
        self.mspec.havoc(self, st)
        for label, f in self.mspec.inv(self, st):
            st.assume(f)
        for f in self.mspec.local_pre(self, st, point):
            st.assume(f)
        st.mon['pre'] = self.mspec.snapshot(self, st)
        st.path.append(f'seg@{point}')

    def segment_end(self, st, why, node=None):
        ln = getattr(node, 'lineno', 0)
        self.mspec.normalize(self, st)
        for label, f in self.mspec.inv(self, st):
            self.oblige(st, 'inv', f'{label} holds at {why}', f, ln, f'{label}')
        for label, f in self.mspec.frame(self, st, st.mon['pre']):
            self.oblige(st, 'frame', f'{label} at {why}', f, ln, f'{label}')

    # statements -------------------------------------------------------------------------------
    def st_Expr(self, s, st):
        if isinstance(s.value, ast.Call) and isinstance(s.value.func, ast.Name):
            h = self.ms.intrinsics.get('stmt:' + s.value.func.id)
            if h is not None:
                return h(self, st, s.value)
        if isinstance(s.value, ast.Call) and isinstance(s.value.func, ast.Attribute):
            h = self.ms.intrinsics.get('stmt-method:' + s.value.func.attr)
            if h is not None:
                r = h(self, st, s.value)
                if r is not NotImplemented:
                    return r
        if isinstance(s.value, ast.Yield):
            val = self.eval(s.value.value, st) if s.value.value is not None else NONE
            st.mon['yield_value'] = val
            self.mspec.before_yield(self, st, s)
            self.segment_end(st, 'yield', s)
            st.mon['yielded'] = True
            self.segment_start(st, 'yield')
            self.mspec.after_yield(self, st)
            exc = st.clone()
            exc.path.append('body-raises')
            return [(st, ('next',)), (exc, ('raise', 'BodyException', s.lineno))]
        return super().st_Expr(s, st)

    def st_While(self, s, st):
        res = []
        work = [(st, 0)]
        while work:
            cur, n = work.pop()
            c = self.truthy(self.eval(s.test, cur), cur)
            t = cur.clone()
            t.assume(c)
            t.path.append(f'L{s.lineno}:loop')
            f = cur
            f.assume(z3.Not(c))
            f.path.append(f'L{s.lineno}:exit')
            if self.feasible(f):
                res.extend(self.exec_block(s.orelse, f))
            if self.feasible(t):
                if n >= 3:
                    raise OutOfSubset('monitor while-loop does not reach a wait() cut')
                for b, sig in self.exec_block(s.body, t):
                    if b.mon.get('cut'):
                        continue
                    if sig[0] in ('next', 'continue'):
                        work.append((b, n + 1))
                    elif sig[0] == 'break':
                        res.append((b, ('next',)))
                    else:
                        res.append((b, sig))
        return res

    def exec_block(self, stmts, st):
        out = []
        for s, sig in super().exec_block(stmts, st):
            out.append((s, sig))
        return out

    def exec_stmt(self, s, st):
        if st.mon.get('cut'):
            return [(st, ('next',))]
        return super().exec_stmt(s, st)

    # protected fields ---------------------------------------------------------------------------
    def ex_Attribute(self, n, st, spec):
        v = super().ex_Attribute(n, st, spec)
        if not spec and isinstance(n.value, ast.Name) and n.value.id == 'self' \
                and n.attr in self.mspec.protected:
            lk = st.env['self'].fields[self.mspec.protected[n.attr]]
            self.safety(st, lk.owner == st.mon['tid'],
                        f'self.{n.attr} touched only while holding self.{self.mspec.protected[n.attr]} '
                        f'(line {n.lineno})', n)
        return v


# lock operations (registered as intrinsics by the sidecar) ---------------------------------------
def _bal(st, lk, delta):
    b = st.mon['bal']
    b[lk.name] = b.get(lk.name, z3.IntVal(0)) + delta


def lock_acquire(ex, st, lk, blocking):
    """returns Bool value; state updated according to the result"""
    tid = st.mon['tid']
    enabled = z3.Or(lk.owner == 0, z3.And(lk.owner == tid, z3.BoolVal(lk.reentrant)))
    r = z3.Bool(sym.fresh_name('acq'))
    # blocking acquire returns only once acquired; non-blocking fails iff not enabled
    st.assume(z3.Implies(r, enabled))
    st.assume(z3.Implies(blocking, r))
    st.assume(z3.Implies(z3.And(z3.Not(blocking), enabled), r))
    if not lk.reentrant:
        # a thread never re-acquires a plain Lock it already holds (would self-deadlock)
        ex.safety(st, z3.Implies(blocking, lk.owner != tid), f'no self-deadlock on {lk.name}', None)
    rel = st.mon.get('released', {}).get(lk.name)
    if rel is not None and isinstance(ex, MonitorExec):
        # The lock was given up and is taken again inside one segment: other threads ran in between.  The
        # invariant must have held when the lock was released (checked on the state saved there), and what
        # this thread knew about the shared state is void now (havoc under the invariant).  The depth of a
        # reentrant lock is not tracked across this cut: the release is treated as a full one.
        ex.segment_end(rel, f'release of {lk.name} before it is acquired again')
        saved_bal = dict(st.mon['bal'])
        ex.segment_start(st, f'reacquire:{lk.name}')
        st.mon['bal'] = saved_bal
        lk = _relookup(st, lk)
        enabled = z3.Or(lk.owner == 0, z3.And(lk.owner == tid, z3.BoolVal(lk.reentrant)))
        st.assume(z3.Implies(r, enabled))
        st.assume(z3.Implies(z3.And(z3.Not(blocking), enabled), r))
    lk.depth = z3.If(r, lk.depth + 1, lk.depth)
    lk.owner = z3.If(r, tid, lk.owner)
    _bal(st, lk, z3.If(r, 1, 0))
    return Val(TBool, r)


def _relookup(st, lk):
    """the LockVal object of the same lock after a havoc (specs may replace lock objects)"""
    self_ = st.env.get('self')
    fields = getattr(self_, 'fields', {}) if self_ is not None else {}
    for v in fields.values():
        if isinstance(v, LockVal) and v.name == lk.name:
            return v
    return lk


def lock_release(ex, st, lk, node):
    tid = st.mon['tid']
    ex.safety(st, z3.And(lk.owner == tid, lk.depth > 0), f'release of a held {lk.name}', node)
    lk.depth = lk.depth - 1
    lk.owner = z3.If(lk.depth == 0, 0, tid)
    _bal(st, lk, -1)
    if isinstance(ex, MonitorExec):
        rel = dict(st.mon.get('released', {}))
        st.mon['released'] = rel
        rel[lk.name] = None
        rel[lk.name] = st.clone()


def install_lock_intrinsics(M):
    @M.intrinsic('method:acquire')
    def _acquire(ex, st, args, kwargs, node):
        lk = args[0]
        if not isinstance(lk, LockVal):
            return NotImplemented
        b = kwargs.get('blocking', args[1] if len(args) > 1 else BoolV(True))
        return lock_acquire(ex, st, lk, ex.truthy(b, st))

    @M.intrinsic('method:release')
    def _release(ex, st, args, kwargs, node):
        lk = args[0]
        if not isinstance(lk, LockVal):
            return NotImplemented
        lock_release(ex, st, lk, node)
        return NONE

    @M.intrinsic('method:wait')
    def _wait(ex, st, args, kwargs, node):
        lk = args[0]
        if not isinstance(lk, LockVal):
            return NotImplemented
        tid = st.mon['tid']
        ex.safety(st, lk.owner == tid, 'wait() while holding the condition lock', node)
        saved = lk.depth
        lk.owner, lk.depth = z3.IntVal(0), z3.IntVal(0)
        ex.mspec.before_wait(ex, st)
        ex.segment_end(st, 'wait', node)
        if st.mon['waits'] >= 1:
            st.mon['cut'] = True
            return NONE
        st.mon['waits'] += 1
        st.mon['wait_depth'] = saved
        ex.segment_start(st, 'wait')
        lk2 = st.env['self'].fields[lk.name]
        lk2.owner, lk2.depth = tid, saved
        ex.mspec.after_wait(ex, st)
        return NONE

    @M.intrinsic('method:notify_all')
    def _notify(ex, st, args, kwargs, node):
        lk = args[0]
        if not isinstance(lk, LockVal):
            return NotImplemented
        ex.safety(st, lk.owner == st.mon['tid'], 'notify_all() while holding the condition lock', node)
        ex.mspec.on_notify_all(ex, st)
        return NONE

    @M.intrinsic('with')
    def _with(ex, st, cm, item, s):
        if not isinstance(cm, LockVal):
            raise OutOfSubset(f'with on {cm} at line {s.lineno}')
        lock_acquire(ex, st, cm, z3.BoolVal(True))
        out = []
        for cur, sig in ex.exec_block(s.body, st):
            if cur.mon.get('cut'):
                continue
            lk = cur.env['self'].fields[cm.name]
            lock_release(ex, cur, lk, s)
            out.append((cur, sig))
        return out

    @M.intrinsic('get_ident')
    def _get_ident(ex, st, args, kwargs, node):
        return Val(TInt, st.mon['tid'])

    @M.intrinsic('Counter')
    def _counter(ex, st, args, kwargs, node):
        if not args:
            return CounterVal.empty(TInt)
        d = args[0]
        if isinstance(d, PyDict):
            c = CounterVal.empty(TInt)
            for k, v in d.items:
                c.set(ex.to_term(k, TInt, st), ex.to_term(v, TInt, st))
            return c
        raise OutOfSubset('Counter(...) of unsupported argument')


class TraceSpec(MonitorSpec):
    """Effect-trace contracts: the function must perform exactly the specified sequence of effects
    (with equal arguments) for each outcome.  `expected[qualname](st, outcome)` returns the list of
    (effect name, [argument values]) where outcome is 'return', 'body-raises' or the exception name."""

    name = 'trace'
    expected = {}

    def setup(self, ex, st):
        st.mon['trace'] = []

    def havoc(self, ex, st):
        pass

    def before_yield(self, ex, st, node):
        st.mon['trace'] = st.mon['trace'] + [('yield', [st.mon.get('yield_value')])]

    def on_exit(self, ex, st):
        sig = st.mon['exit_sig']
        outcome = 'return' if sig[0] != 'raise' else ('body-raises' if sig[1] == 'BodyException' else sig[1])
        want = self.expected[ex.c.qualname](st, outcome)
        got = st.mon['trace']
        desc = ' > '.join(n for n, _ in want) if want is not None else '(outcome not allowed)'
        ok = want is not None and len(want) == len(got)
        conj = []
        if ok:
            for (wn, wargs), (gn, gargs) in zip(want, got):
                if wn != gn or len(wargs) != len(gargs):
                    ok = False
                    break
                for a, b in zip(wargs, gargs):
                    if a is None:
                        continue  # argument not constrained by the specification
                    if b is None or b is NONE:
                        ok = False
                        break
                    try:
                        conj.append(ex.eq_term(a, b, st))
                    except Exception:
                        ok = False
        goal = z3.And(*conj) if (ok and conj) else z3.BoolVal(ok)
        ex.oblige(st, 'trace', f'outcome {outcome}: effects are exactly {desc}'
                  + ('' if ok else f' (got {" > ".join(n for n, _ in got)})'), goal, 0,
                  f'effect trace == specification [{outcome}]', keep=True)


def record(st, name, args):
    st.mon['trace'] = st.mon['trace'] + [(name, list(args))]
