"""pyvc.structs -- generated obligations for value classes (serves C06 / C12).

For a class C of the repository the REAL methods `__eq__`, `__hash__`, `to_dict`, `from_dict` and
`__init__` are executed symbolically on two arbitrary instances a, b whose fields are opaque
leaves, and the following laws become proof obligations:

  eq-refl       a.__eq__(a) is True
  eq-sym        a.__eq__(b) == b.__eq__(a)
  eq=>hash      a.__eq__(b) is True  implies  hash(a) == hash(b)
  eq=>dict      a.__eq__(b) is True  implies  a.to_dict() == b.to_dict()     (key by key)
  roundtrip     C.from_dict(a.to_dict()).__eq__(a) is True                   (without the JSON layer)

Leaf laws assumed (components are proved under their own contracts or checked by the bounded
runner): `==` on a field value is an equivalence that z3 equality models, equal values have equal
hashes, `deserialize(serialize(v)) == v`, `tuple(v) == v` for tuple-valued fields.
"""
import ast

import z3

from . import sym
from .symexec import (NONE, BoolV, BoundMethod, Closure, Exec, OutOfSubset, PyDict, PyTuple, SObj,
                      State, Val, ContractStale)
from .sym import TBool, TInt, TOpaque, TStr

Leaf = TOpaque('Leaf')
HashT = TInt
_hash_leaf = None
_hash_tuple = {}
_ser = {}


def hash_leaf():
    global _hash_leaf
    if _hash_leaf is None:
        _hash_leaf = z3.Function('hash_leaf', Leaf.sort(), z3.IntSort())
    return _hash_leaf


def hash_tuple(n):
    if n not in _hash_tuple:
        _hash_tuple[n] = z3.Function(f'hash_tuple{n}', *([z3.IntSort()] * n), z3.IntSort())
    return _hash_tuple[n]


def ufun(name):
    if name not in _ser:
        _ser[name] = z3.Function(name, Leaf.sort(), Leaf.sort())
    return _ser[name]


class NotImpl:
    pass


NOTIMPL = NotImpl()


class StructExec(Exec):
    """Exec with the class-level conventions needed to run dunder methods on symbolic instances."""

    def class_node(self, name):
        for n in ast.walk(self.tree):
            if isinstance(n, ast.ClassDef) and n.name == name:
                return n
        raise ContractStale(f'class {name} not found')

    def method(self, cls, name):
        node = self.class_node(cls)
        for n in node.body:
            if isinstance(n, ast.FunctionDef) and n.name == name:
                return n, cls
        for b in node.bases:
            bn = b.id if isinstance(b, ast.Name) else None
            if bn and any(isinstance(x, ast.ClassDef) and x.name == bn for x in ast.walk(self.tree)):
                r = self.method(bn, name)
                if r is not None:
                    return r
        return None

    def new_obj(self, cls, tag):
        o = SObj(cls, {})
        o.tag = tag
        return o

    def field(self, obj, name):
        if name not in obj.fields:
            obj.fields[name] = Val(Leaf, z3.Const(f'{obj.tag}.{name}', Leaf.sort()))
        return obj.fields[name]

    # attribute access on symbolic instances: fields are created lazily, properties are inlined
    def ex_Attribute(self, n, st, spec):
        base = self.eval(n.value, st, spec)
        if isinstance(base, SObj):
            if n.attr.startswith('_') and not n.attr.startswith('__'):
                return self.field(base, n.attr)
            m = self.method(base.cls, n.attr)
            if m is not None:
                fn, owner = m
                if any(isinstance(d, ast.Name) and d.id == 'property' for d in fn.decorator_list):
                    return self.run_method(base, n.attr, [], st)
                return BoundMethod(base, n.attr)
            if n.attr == '__class__':
                return ClassRef(base.cls)
            raise OutOfSubset(f'attribute {n.attr} of {base.cls}')
        if isinstance(base, ClassRef) and n.attr == '__name__':
            return Val(TStr, sym.str_lit(base.name))
        if isinstance(base, SuperRef):
            return BoundMethod(base, n.attr)
        return super().ex_Attribute(n, st, spec)

    def ex_Name(self, n, st, spec):
        if n.id == 'NotImplemented':
            return NOTIMPL
        if n.id == 'cls' and 'cls' in st.env:
            return st.env['cls']
        return super().ex_Name(n, st, spec)

    def run_method(self, obj, name, args, st, start_cls=None, kwargs=None):
        m = self.method(start_cls or obj.cls, name)
        if m is None:
            raise OutOfSubset(f'method {name} of {obj.cls} not found')
        fn, owner = m
        saved = st.env
        names = [a.arg for a in fn.args.args]
        env = {names[0]: obj, '__owner__': owner}
        for nm, v in zip(names[1:], args):
            env[nm] = v
        for k, v in (kwargs or {}).items():
            env[k] = v
        st.env = env
        n0 = len(st.pc)
        try:
            results = self.exec_block(fn.body, st)
            rets = []
            for s, sig in results:
                if sig[0] == 'return':
                    rets.append((s, sig[1]))
                elif sig[0] == 'next':
                    rets.append((s, NONE))
                else:
                    raise OutOfSubset(f'{obj.cls}.{name} raises {sig}')
            if len(rets) == 1:
                return rets[0][1]
            # pure method that branches: merge the boolean results of its paths
            if all((isinstance(v, Val) and v.ty is TBool) or isinstance(v, NotImpl) for _, v in rets) \
                    and not any(isinstance(v, NotImpl) for _, v in rets):
                disj = []
                for s, v in rets:
                    cond = z3.And(*s.pc[n0:]) if len(s.pc) > n0 else z3.BoolVal(True)
                    disj.append(z3.And(cond, v.t))
                    for f in s.facts.facts:
                        st.facts.add(f)
                del st.pc[n0:]
                return Val(TBool, z3.Or(*disj))
            return rets
        finally:
            st.env = saved

    def call(self, fn, args, kwargs, st, n, spec):
        if isinstance(fn, BoundMethod) and isinstance(fn.base, SObj):
            r = self.run_method(fn.base, fn.name, args, st, kwargs=kwargs)
            if isinstance(r, list):
                raise OutOfSubset('forking method call inside an expression')
            return r
        if isinstance(fn, BoundMethod) and isinstance(fn.base, SuperRef):
            base_cls = self.base_of(fn.base.owner)
            r = self.run_method(fn.base.obj, fn.name, args, st, start_cls=base_cls, kwargs=kwargs)
            if isinstance(r, list):
                raise OutOfSubset('forking super call inside an expression')
            return r
        if isinstance(fn, BoundMethod) and isinstance(fn.base, Val) and fn.base.ty == Leaf:
            # method of a leaf value: uninterpreted function of the leaf (serialize, ...)
            if fn.name in ('serialize',):
                return Val(Leaf, ufun('leaf_' + fn.name)(fn.base.t))
            raise OutOfSubset(f'method {fn.name} on a field value')
        if isinstance(fn, ClassRef):
            return self.construct(fn.name, args, kwargs, st)
        return super().call(fn, args, kwargs, st, n, spec)

    def base_of(self, cls):
        node = self.class_node(cls)
        for b in node.bases:
            if isinstance(b, ast.Name) and any(isinstance(x, ast.ClassDef) and x.name == b.id
                                               for x in ast.walk(self.tree)):
                return b.id
        raise OutOfSubset(f'no base class of {cls} in this module')

    def construct(self, cls, args, kwargs, st):
        self._nobj = getattr(self, '_nobj', 0) + 1
        o = self.new_obj(cls, f'new{self._nobj}')
        r = self.run_method(o, '__init__', args, st, kwargs=kwargs)
        if isinstance(r, list):
            raise OutOfSubset('forking __init__')
        return o

    def assign(self, target, v, st):
        if isinstance(target, ast.Attribute):
            obj = self.eval(target.value, st)
            if isinstance(obj, SObj):
                obj.fields[target.attr] = v
                return
        return super().assign(target, v, st)

    def eq_term(self, a, b, st):
        if isinstance(a, SObj) or isinstance(b, SObj):
            if isinstance(a, SObj) and isinstance(b, SObj):
                if a is b:
                    return z3.BoolVal(True)
                r = self.run_method(a, '__eq__', [b], st)
                return self.truthy(r, st)
            return z3.BoolVal(False)
        if isinstance(a, NotImpl) or isinstance(b, NotImpl):
            return z3.BoolVal(isinstance(a, NotImpl) and isinstance(b, NotImpl))
        if isinstance(a, PyDict) and isinstance(b, PyDict):
            return dict_eq(self, a, b, st)
        return super().eq_term(a, b, st)

    def compare(self, op, a, b, st, node, spec):
        if isinstance(op, (ast.Is, ast.IsNot)) and (isinstance(a, SObj) or isinstance(b, SObj)):
            same = a is b
            return z3.BoolVal(same if isinstance(op, ast.Is) else not same)
        return super().compare(op, a, b, st, node, spec)

    def getitem(self, base, idx, st, n, spec):
        if isinstance(base, PyDict):
            for k, v in base.items:
                if isinstance(k, Val) and isinstance(idx, Val) and z3.eq(z3.simplify(k.t), z3.simplify(idx.t)):
                    return v
            raise OutOfSubset('dictionary key not present in the literal dict')
        return super().getitem(base, idx, st, n, spec)

    def truthy(self, v, st):
        if isinstance(v, NotImpl):
            return z3.BoolVal(True)
        return super().truthy(v, st)


class ClassRef:
    def __init__(self, name):
        self.name = name


class SuperRef:
    def __init__(self, obj, owner):
        self.obj, self.owner = obj, owner


def dict_eq(ex, a, b, st):
    ka = [z3.simplify(k.t) for k, _ in a.items]
    kb = [z3.simplify(k.t) for k, _ in b.items]
    if len(ka) != len(kb) or any(not z3.eq(x, y) for x, y in zip(ka, kb)):
        return z3.BoolVal(False)
    if not a.items:
        return z3.BoolVal(True)
    return z3.And(*[ex.eq_term(x, y, st) for (_, x), (_, y) in zip(a.items, b.items)])


def install(M, classes_in_module):
    """intrinsics shared by the struct sidecars"""

    @M.intrinsic('isinstance')
    def _isinstance(ex, st, args, kwargs, node):
        v = args[0]
        cls = node.args[1]
        name = cls.id if isinstance(cls, ast.Name) else ast.unparse(cls)
        if isinstance(v, SObj):
            c = v.cls
            while True:
                if c == name:
                    return BoolV(True)
                try:
                    c = ex.base_of(c)
                except OutOfSubset:
                    return BoolV(False)
        if isinstance(v, NotImpl):
            return BoolV(False)
        raise OutOfSubset(f'isinstance({v}, {name})')

    @M.intrinsic('hash')
    def _hash(ex, st, args, kwargs, node):
        return Val(TInt, hash_of(ex, st, args[0]))

    @M.intrinsic('super')
    def _super(ex, st, args, kwargs, node):
        return SuperRef(st.env[list(st.env)[0]], st.env['__owner__'])

    @M.intrinsic('tuple')
    def _tuple(ex, st, args, kwargs, node):
        # tuple(v) of a tuple-valued field value is that value
        if args and isinstance(args[0], Val) and args[0].ty == Leaf:
            return args[0]
        from .symexec import BUILTINS
        return BUILTINS['tuple'](ex, st, args, kwargs, node, False)

    for dn in ('Expr.deserialize', 'Matrix.deserialize', 'Unit.deserialize'):
        def _deser(ex, st, args, kwargs, node):
            x = args[0]
            r = ufun('leaf_deserialize')(x.t)
            # leaf law: deserialize(serialize(v)) == v
            v = Leaf.fresh('v')
            st.facts.add(z3.ForAll([v], ufun('leaf_deserialize')(ufun('leaf_serialize')(v)) == v,
                                   patterns=[ufun('leaf_serialize')(v)]))
            return Val(Leaf, r)
        M.intrinsics[dn] = _deser

    for c in classes_in_module:
        def mk(c):
            def h(ex, st, args, kwargs, node):
                return ex.construct(c, args, kwargs, st)
            return h
        M.intrinsics[c] = mk(c)


def hash_of(ex, st, v):
    if isinstance(v, Val) and v.ty == Leaf:
        return hash_leaf()(v.t)
    if isinstance(v, PyTuple):
        hs = [hash_of(ex, st, i) for i in v.items]
        return hash_tuple(len(hs))(*hs) if hs else z3.IntVal(0)
    if isinstance(v, SObj):
        r = ex.run_method(v, '__hash__', [], st)
        return r.t
    if isinstance(v, Val) and v.ty is TInt:
        return v.t
    if isinstance(v, Val) and v.ty in (TStr, TBool):
        f = z3.Function('hash_' + v.ty.key(), v.ty.sort(), z3.IntSort())
        return f(v.t)
    raise OutOfSubset(f'hash of {v}')


def verify_struct(ex, c):
    """c.qualname = class name; c.struct = list of laws to generate"""
    cls = c.qualname
    ex.c = c
    ex.loops = []
    ex.fnode = ex.class_node(cls)
    sym.reset_names()
    ex.inputs = {}
    ex.entry_old = {}
    nob = len(ex.obligations)

    def fresh_state():
        st = State()
        return st

    laws = c.struct
    if 'eq-refl' in laws:
        st = fresh_state()
        a = ex.new_obj(cls, 'a')
        r = ex.run_method(a, '__eq__', [a], st)
        ex.oblige(st, 'eq-refl', f'{cls}: a == a', ex.truthy(r, st), 0, 'a == a', keep=True)
    if 'eq=>hash' in laws or 'eq-sym' in laws or 'eq=>dict' in laws:
        st = fresh_state()
        a, b = ex.new_obj(cls, 'a'), ex.new_obj(cls, 'b')
        r = ex.run_method(a, '__eq__', [b], st)
        eq_ab = z3.And(ex.truthy(r, st), z3.BoolVal(not isinstance(r, NotImpl)))
        if 'eq-sym' in laws:
            r2 = ex.run_method(b, '__eq__', [a], st)
            ex.oblige(st, 'eq-sym', f'{cls}: (a == b) == (b == a)', eq_ab == ex.truthy(r2, st), 0,
                      '(a == b) == (b == a)', keep=True)
        if 'eq=>hash' in laws:
            ha, hb = hash_of(ex, st, a), hash_of(ex, st, b)
            ex.oblige(st, 'eq=>hash', f'{cls}: a == b implies hash(a) == hash(b)',
                      z3.Implies(eq_ab, ha == hb), 0, 'a == b implies hash(a) == hash(b)', keep=True)
        if 'eq=>dict' in laws:
            da = ex.run_method(a, 'to_dict', [], st)
            db = ex.run_method(b, 'to_dict', [], st)
            ex.oblige(st, 'eq=>dict', f'{cls}: a == b implies a.to_dict() == b.to_dict()',
                      z3.Implies(eq_ab, ex.eq_term(da, db, st)), 0,
                      'a == b implies a.to_dict() == b.to_dict()', keep=True)
    if 'roundtrip' in laws:
        st = fresh_state()
        a = ex.new_obj(cls, 'a')
        d = ex.run_method(a, 'to_dict', [], st)
        m = ex.method(cls, 'from_dict')
        fn, owner = m
        saved = st.env
        names = [x.arg for x in fn.args.args]
        st.env = {names[0]: ClassRef(cls), names[1]: d, '__owner__': owner}
        try:
            res = ex.exec_block(fn.body, st)
        finally:
            st.env = saved
        if len(res) != 1 or res[0][1][0] != 'return':
            raise OutOfSubset(f'{cls}.from_dict forks or raises')
        x2 = res[0][1][1]
        r = ex.run_method(x2, '__eq__', [a], st)
        ex.oblige(st, 'roundtrip', f'{cls}: from_dict(to_dict(a)) == a',
                  z3.And(ex.truthy(r, st), z3.BoolVal(not isinstance(r, NotImpl))), 0,
                  'from_dict(to_dict(a)) == a', keep=True)
    return ex.obligations[nob:]
