"""pyvc.api -- the sidecar contract language.

A sidecar module (under /verif/contracts) declares, for real functions of /repo, their types,
pre/postconditions, loop invariants and the spec functions they use.  This module imports nothing
heavy so that the same sidecar can be loaded by the native replay/bounded runner
(/venv/bin/python, no z3) and by the VC generator (python3-vt, z3).

Contract clauses are Python expression *strings*: the VC generator parses them with `ast` and runs
them through the same symbolic evaluator as the code; the native runner `eval`s them.
"""
import ast

REGISTRY = {}  # 'relative/path.py:qualname' -> Contract
MODULES = {}  # relative path -> ModuleSpec


class TyRef:
    """Type expression, resolved lazily to pyvc.sym types (keeps this module z3-free)."""

    def __init__(self, _k, *args, **kw):
        self.kind, self.args, self.kw = _k, args, kw

    def resolve(self):
        from . import sym

        k = self.kind
        if k == 'Int':
            return sym.TInt
        if k == 'Real':
            return sym.TReal
        if k == 'Bool':
            return sym.TBool
        if k == 'Str':
            return sym.TStr
        if k == 'None':
            return sym.TNone
        if k == 'Opaque':
            obj = sym.TOpaque(self.args[0])
            if not getattr(self, '_resolved', False):
                self._resolved = True  # (recursive attribute types are allowed)
                obj.attrs.update({a: t.resolve() for a, t in self.kw.get('attrs', {}).items()})
            return obj
        if k == 'Tuple':
            return sym.TTuple(*[a.resolve() for a in self.args])
        if k == 'Seq':
            return sym.TSeq(self.args[0].resolve(), self.kw.get('kind', 'list'))
        if k == 'Option':
            return sym.TOption(self.args[0].resolve())
        if k == 'Set':
            return ('set', self.args[0].resolve())
        if k == 'Dict':
            return ('dict', self.args[0].resolve(), self.args[1].resolve())
        raise ValueError(k)

    def __repr__(self):
        return f'{self.kind}{self.args}'


Int, Real, Bool, Str, NoneT = TyRef('Int'), TyRef('Real'), TyRef('Bool'), TyRef('Str'), TyRef('None')


def Opaque(_name, **attrs):
    return TyRef('Opaque', _name, attrs=attrs)


def Tuple(*items):
    return TyRef('Tuple', *items)


def Seq(elem, kind='list'):
    return TyRef('Seq', elem, kind=kind)


def Option(inner):
    return TyRef('Option', inner)


def SetOf(elem):
    return TyRef('Set', elem)


def DictOf(k, v):
    return TyRef('Dict', k, v)


class Loop:
    """Specification of the k-th loop (source order, nested loops included) of a function.

    counter  : name of the ghost variable holding the number of completed iterations (for-loops)
    inv      : invariant clauses (may mention the counter)
    decreases: variant for while-loops (Int expression, must decrease and stay >= 0)
    types    : types of variables first assigned inside the loop that the invariant mentions
    hints    : ghost assertions proved and then assumed at the start of every iteration
    end_hints: same, at the end of the body before the invariant is re-established
    """

    def __init__(self, counter='_k', inv=(), decreases=None, types=None, hints=(), end_hints=(),
                 exit_hints=(), ghost=None, seq=None):
        self.ghost = ghost or {}  # name -> spec expression evaluated once at loop entry
        self.seq = seq  # name bound to the sequence being iterated (for-loops over sequences)
        self.counter = counter
        self.inv = list(inv)
        self.decreases = decreases
        self.types = types or {}
        self.hints = list(hints)
        self.end_hints = list(end_hints)
        self.exit_hints = list(exit_hints)


class Fold:
    """Spec function defined as a left fold over a sequence:
        f([]) == init ;  f(s + [e]) == step(f(s), e)
    `homomorphic=True` additionally uses  f(a + b) == f(a) + f(b)  (valid for folds of the form
    acc + g(e); it is proved by induction as a lemma obligation of the module, see Module.lemma).
    """

    def __init__(self, name, dom, cod, init, step, homomorphic=False):
        self.name, self.domref, self.codref = name, dom, cod
        self.init_src, self.step_src, self.homomorphic = init, step, homomorphic
        self._fn = None

    # native evaluation ------------------------------------------------------------------------
    def native(self, seq):
        acc = eval(self.init_src)
        step = eval(self.step_src)
        for e in seq:
            acc = step(acc, e)
        return acc

    __call__ = native

    # symbolic ---------------------------------------------------------------------------------
    @property
    def dom(self):
        return self.domref.resolve()

    @property
    def cod(self):
        return self.codref.resolve()

    def instantiate(self, ops, how, r, *args):
        from . import symexec

        symexec.fold_instantiate(self, ops, how, r, *args)

    def fn(self):
        import z3

        if self._fn is None:
            self._fn = z3.Function('spec_' + self.name, self.dom.sort(), self.cod.sort())
        return self._fn


class Contract:
    def __init__(self, module, qualname, params, returns=None, requires=(), ensures=(),
                 raises=None, decreases=None, loops=(), prop=None, generator=False, inline=False,
                 ghost=None, calls=None, self_type=None, locals=None, domain=None, pure=True,
                 exit_hints=(), note='', ensures_bounded=()):
        self.ensures_bounded = list(ensures_bounded)  # checked only by the bounded runner
        self.module = module
        self.qualname = qualname
        self.params = dict(params)
        self.returns = returns
        self.requires = list(requires)
        self.ensures = list(ensures)
        self.raises = dict(raises or {})
        self.decreases = decreases
        self.loops = list(loops)
        self.prop = prop
        self.generator = generator
        self.inline = inline
        self.calls = calls or {}
        self.locals = locals or {}
        self.domain = domain
        self.exit_hints = list(exit_hints)
        self.note = note

    @property
    def fid(self):
        return f'{self.module.path}:{self.qualname}'


class ModuleSpec:
    def __init__(self, path, prop=None):
        self.path = path  # relative to the repository root
        self.prop = prop
        self.folds = {}
        self.contracts = {}
        self.intrinsics = {}  # dotted name -> handler(ex, st, args, kwargs, node)
        self.natives = {}  # helpers for native clause evaluation
        self.lemmas = []
        self.aliases = {}  # local name -> 'path.py:qualname' of a contract in another module
        self.consts = {}  # module-level name -> TyRef (an uninterpreted constant of that type)
        MODULES[path] = self

    def fold(self, name, dom, cod, init, step, homomorphic=False):
        f = Fold(name, dom, cod, init, step, homomorphic)
        self.folds[name] = f
        return f

    def contract(self, qualname, **kw):
        kw.setdefault('prop', self.prop)
        c = Contract(self, qualname, **kw)
        self.contracts[qualname] = c
        REGISTRY[c.fid] = c
        return c

    def intrinsic(self, dotted):
        def deco(fn):
            self.intrinsics[dotted] = fn
            return fn

        return deco

    def native(self, fn):
        self.natives[fn.__name__] = fn
        return fn


def implies(a, b):
    return (not a) or b


def rev(s):
    return list(reversed(s))


def val(x):
    return x


def atend(s, d):
    """element at distance d from the end of s"""
    return s[len(s) - 1 - d]


def parse_expr(src):
    return ast.parse(src.strip(), mode='eval').body
