"""pyvc.cli -- ./check <Cnn> [--tier quick|thorough] | ./check replay <file> | ./check baseline

Exit codes: 0 property held on everything decided (KNOWN-FINDING lines allowed), 1 violation
(a line `VIOLATION property=<id> replay=<path>` is printed), 2 undecided (solver budget,
out-of-subset code, stale contract), 3 checker error.
"""
import argparse
import hashlib
import importlib
import json
import os
import re
import subprocess
import sys
import time
import traceback

ROOT = os.path.dirname(os.path.dirname(os.path.abspath(__file__)))
REPO = os.environ.get('VERIF_REPO', '/repo')
# runs against a scratch tree (seeded changes) must not touch the evidence and replays of /repo
OUT = '' if os.path.realpath(REPO) == '/repo' else '.work/scratch_' + hashlib.sha1(REPO.encode()).hexdigest()[:8] + '/'
VENV_PY = '/venv/bin/python'
BASELINE = os.path.join(ROOT, 'contracts', 'baseline_obligations.json')
KNOWN = os.path.join(ROOT, 'known_findings.json')


def log(*a):
    print(*a, flush=True)


def load_json(p, default):
    try:
        return json.load(open(p))
    except FileNotFoundError:
        return default


def native(args, timeout=3600):
    env = dict(os.environ)
    env['VERIF_REPO'] = REPO
    env['PYTHONPATH'] = ROOT
    env.setdefault('PYTHONWARNINGS', 'ignore')
    p = subprocess.run([VENV_PY, '-m', 'pyvc.native'] + args, cwd=ROOT, env=env,
                       capture_output=True, text=True, timeout=timeout)
    last = {}
    for line in reversed(p.stdout.strip().splitlines()):
        try:
            last = json.loads(line)
            break
        except ValueError:
            continue
    return p.returncode, last, p.stdout[-2000:] + p.stderr[-2000:]


class Run:
    def __init__(self, pid, tier, seed):
        self.pid, self.tier, self.seed = pid, tier, seed
        self.t0 = time.time()
        self.violations = []  # dicts: fid, clause, kind, replay, note
        self.undecided = []
        self.errors = []
        self.known_hits = []
        self.functions = []
        self.n_obl = 0
        self.n_dis = 0
        self.backends = {}
        self.solver_s = 0.0
        self.samples = []
        self.bounded = []
        self.trusted = []
        self.assumptions = []
        self.replay_dir = os.path.join(ROOT, OUT + 'replays', pid)
        os.makedirs(self.replay_dir, exist_ok=True)
        for f in os.listdir(self.replay_dir):
            if f.endswith('.json'):
                os.unlink(os.path.join(self.replay_dir, f))
        self._nrep = 0

    def replay_path(self, tag):
        self._nrep += 1
        return os.path.join(self.replay_dir, f'{tag}_{self._nrep}.json')


def oid_of(ob):
    return f'{ob.fid}#{ob.kind}#{ob.clause}#{"/".join(ob.path)}'


def prove(run, cfg, budget_ms):
    from . import api, solve, symexec

    baseline = load_json(BASELINE, {})
    allobs = []
    per_fn = {}
    for sidecar, names in cfg.get('proof', []):
        importlib.import_module(sidecar)
    for sidecar, names in cfg.get('proof', []):
        mod = importlib.import_module(sidecar)
        for ms in [m for m in api.MODULES.values() if m in getattr(mod, 'MODULES_HERE', [getattr(mod, 'M', None)])]:
            ex = symexec.get_exec(REPO, ms, api.REGISTRY)
            for q, c in ms.contracts.items():
                if names is not None and q not in names:
                    continue
                if getattr(c, 'assumed', False):
                    a = f'ASSUMED contract (not verified, used at call sites): {c.fid}'
                    if a not in run.trusted:
                        run.trusted.append(a)
                    continue
                t = time.time()
                try:
                    obs = symexec.verify_contract(ex, c)
                except symexec.OutOfSubset as e:
                    run.undecided.append({'fid': c.fid, 'why': f'out of subset: {e}'})
                    continue
                except symexec.ContractStale as e:
                    run.undecided.append({'fid': c.fid, 'why': f'contract stale: {e}'})
                    continue
                except Exception as e:  # noqa: BLE001
                    # the contract machinery itself failed.  On a function whose source differs from the baseline this
                    # is a limit of the engine on the new code (undecided, exit 2); on unchanged source it is a bug
                    # of the checker (exit 3)
                    base = baseline.get(c.fid, {})
                    try:
                        same = base.get('src') == ex.func_source_hash(c.qualname)
                    except Exception:  # noqa: BLE001
                        same = False
                    if same:
                        raise
                    run.undecided.append({'fid': c.fid, 'why': f'the verifier could not execute the changed function '
                                          f'under its contract: {type(e).__name__}: {str(e)[:200]}'})
                    continue
                if not obs:
                    run.errors.append(f'{c.fid}: zero obligations generated (vacuity guard)')
                for ob in obs:
                    ob.sidecar = sidecar
                    ob.contract = c
                srch = ex.func_source_hash(c.qualname)
                per_fn[c.fid] = {'src': srch, 'n': len(obs), 'gen_s': round(time.time() - t, 2),
                                 'sidecar': sidecar}
                allobs += obs
                for x in getattr(mod, 'TRUSTED', []):
                    if x not in run.trusted:
                        run.trusted.append(x)
            # lemmas of the sidecar (spec-level facts used as assumptions by the contracts)
            for label, fn in getattr(ms, 'lemmas', []):
                hyps, goal = fn()
                fid = f'{ms.path}:lemma:{label}'
                if fid in per_fn:
                    continue
                ob = symexec.Obligation(fid, 'lemma', label, list(hyps), goal, 0, [], {}, cfg.get('prop'))
                ob.clause = label
                ob.sidecar = sidecar
                ob.contract = None
                per_fn[fid] = {'src': 'lemma', 'n': 1, 'gen_s': 0.0, 'sidecar': sidecar}
                allobs.append(ob)
            if False:
                if hasattr(mod, 'TRUSTED'):
                    for x in mod.TRUSTED:
                        if x not in run.trusted:
                            run.trusted.append(x)
    results = solve.solve_all(allobs, budget_ms=budget_ms)
    # retry unknowns once with a doubled budget (sized against load flips)
    # (only where the function is unchanged since the baseline: on changed code go straight to
    #  replay / bounded search)
    retry = [i for i, r in enumerate(results) if r['status'] == 'unknown'
             and baseline.get(allobs[i].fid, {}).get('src') == per_fn[allobs[i].fid]['src']]
    if retry:
        again = solve.solve_all([allobs[i] for i in retry], budget_ms=budget_ms * 3)
        for i, r in zip(retry, again):
            r['idx'] = i
            results[i] = r
    run.n_obl += len(allobs)
    fn_status = {}
    for ob, r in zip(allobs, results):
        run.solver_s += r['time']
        st = fn_status.setdefault(ob.fid, {'obligations': 0, 'discharged': 0})
        st['obligations'] += 1
        if r['status'] == 'unsat':
            run.n_dis += 1
            st['discharged'] += 1
            run.backends[r['backend']] = run.backends.get(r['backend'], 0) + 1
            if len(run.samples) < 6 and ob.kind in ('post', 'loop-preserved'):
                run.samples.append({'obligation': oid_of(ob)[:300], 'backend': r['backend'],
                                    'solver_s': round(r['time'], 3)})
            continue
        handle_failed(run, ob, r, baseline, per_fn)
    for fid, info in per_fn.items():
        info.update(fn_status.get(fid, {}))
        run.functions.append(dict(function=fid, **info))
    return per_fn, allobs, results


def handle_failed(run, ob, r, baseline, per_fn):
    """sat or unknown obligation -> replay / bounded search / baseline rule."""
    c = ob.contract
    if c is None:
        path = run.replay_path('obligation')
        json.dump({'property': run.pid, 'fid': ob.fid, 'kind': 'lemma', 'label': ob.label,
                   'solver': {'status': r['status'], 'reason': r['reason']}}, open(path, 'w'), indent=1)
        run.violations.append({'fid': ob.fid, 'clause': ob.clause, 'kind': 'lemma', 'replay': path,
                               'note': f'lemma `{ob.label}` is not discharged: {r["status"]}', 'input': False})
        return
    rp = {'property': run.pid, 'sidecar': ob.sidecar, 'fid': ob.fid, 'obligation': oid_of(ob),
          'kind': ob.kind, 'clause': ob.clause, 'label': ob.label, 'line': ob.lineno,
          'solver': {'status': r['status'], 'backend': r['backend'], 'reason': r['reason'],
                     'vc_hash': r['hash']}}
    reproduced = False
    if getattr(ob, 'mon', None) is not None:
        # monitor obligation: finite-instantiation query (3 thread ids) for a candidate state, then
        # a native replay with real threads
        from . import solve as _solve
        import z3 as _z3
        spec = ob.mon['spec']
        dom = (0, 1, 2, 3)
        m = _solve.finite_refute(ob, dom=dom, timeout_ms=20000,
                                 extra=[_z3.Or(*[ob.mon['tid'] == d for d in dom[1:]])])
        rp['solver']['finite_instantiation'] = 'sat' if m is not None else 'no model'
        if m is not None and hasattr(spec, 'model_to_replay'):
            state = spec.model_to_replay(m, ob, dom)
            if state is not None:
                rp.update(kind='custom', replay_fn=spec.replay_fn, state=state, obligation_kind=ob.kind)
                path = run.replay_path('cex')
                json.dump(rp, open(path, 'w'), indent=1)
                code, out, raw = native(['replay', path], timeout=120)
                rp['native'] = out or {'raw': raw[-800:]}
                json.dump(rp, open(path, 'w'), indent=1)
                if out.get('reproduced'):
                    run.violations.append({'fid': ob.fid, 'clause': ob.clause, 'kind': ob.kind,
                                           'replay': path, 'note': out.get('detail', ''), 'input': True})
                    return
                rp['kind'] = ob.kind
    if r['status'] == 'sat' and r['cex'] and '_error' not in r['cex'] and has_abstract(jsonable(r['cex'])) \
            and getattr(c, 'native_adapter', None) is None:
        # the counter-model assigns values of uninterpreted sorts (abstract objects, abstract strings): there is
        # no concrete input to run; a bounded domain of the contract (below) may still find one
        rp['inputs'] = jsonable(r['cex'])
        rp['native'] = {'skipped': 'the counter-model contains abstract values without a concrete counterpart'}
    elif r['status'] == 'sat' and r['cex'] and '_error' not in r['cex']:
        rp['inputs'] = jsonable(r['cex'])
        path = run.replay_path('cex')
        json.dump(rp, open(path, 'w'), indent=1)
        code, out, raw = native(['replay', path])
        rp['native'] = out or {'raw': raw[-500:]}
        json.dump(rp, open(path, 'w'), indent=1)
        if out.get('reproduced'):
            reproduced = True
            run.violations.append({'fid': ob.fid, 'clause': native_clause(out.get('detail', ''), ob.clause),
                                   'kind': ob.kind, 'obligation': ob.clause,
                                   'replay': path, 'note': out.get('detail', ''), 'input': True})
            return
    # bounded search on the real function for a concrete failing input
    if c.domain:
        code, out, raw = native(['bounded', ob.sidecar, ob.fid, run.tier])
        if out.get('fail'):
            path = run.replay_path('bounded')
            rp2 = dict(rp)
            rp2['inputs'] = out['fail']['inputs']
            rp2['native'] = out['fail']
            json.dump(rp2, open(path, 'w'), indent=1)
            run.violations.append({'fid': ob.fid, 'clause': native_clause(out['fail']['detail'], ob.clause),
                                   'kind': ob.kind, 'obligation': ob.clause,
                                   'replay': path, 'note': out['fail']['detail'], 'input': True})
            return
    base = baseline.get(ob.fid)
    cur = per_fn[ob.fid]['src']
    # modular verification: the VC of a function depends on its own source and on contracts only
    changed = base is None or base.get('src') != cur
    path = run.replay_path('obligation')
    rp['note'] = 'no failing input found; obligation not discharged'
    json.dump(rp, open(path, 'w'), indent=1)
    if not changed:
        run.undecided.append({'fid': ob.fid, 'why': f'solver did not decide an obligation whose VC is '
                              f'unchanged since the baseline ({r["reason"]}): {ob.label}'})
    else:
        run.violations.append({'fid': ob.fid, 'clause': ob.clause, 'kind': ob.kind, 'replay': path,
                               'note': f'obligation `{ob.label}` (line {ob.lineno}) no longer '
                                       f'discharges: {r["status"]} {r["reason"]}', 'input': False})


def has_abstract(v):
    if isinstance(v, dict):
        return 'opaque' in v or any(has_abstract(x) for x in v.values())
    if isinstance(v, (list, tuple)):
        return any(has_abstract(x) for x in v)
    return isinstance(v, str) and (v.startswith('s_Str_val_') or '!val!' in v)


def native_clause(detail, default):
    """the contract clause that the real code violates natively (key of a finding)"""
    for pre in ('postcondition fails: ', 'raised ', 'unexpected exception ', 'returned normally although '):
        if detail.startswith(pre):
            return detail[len(pre):] if pre == 'postcondition fails: ' else detail
    return default


def jsonable(v):
    if isinstance(v, tuple):
        return {'__tuple__': [jsonable(x) for x in v]}
    if isinstance(v, list):
        return [jsonable(x) for x in v]
    if isinstance(v, dict):
        return {k: jsonable(x) for k, x in v.items()}
    return v


def run_bounded(run, cfg):
    for item in cfg.get('bounded', []):
        sidecar, fid = item[0], item[1]
        code, out, raw = native(['bounded', sidecar, fid, run.tier])
        if not out:
            run.errors.append(f'bounded runner failed for {fid}: {raw[-800:]}')
            continue
        run.bounded.append({'function': fid, 'cases': out['cases'], 'nontrivial': out['nontrivial'],
                            'bound': item[2] if len(item) > 2 else '', 'wall_s': out['wall_s'],
                            'samples': out['samples'][:2]})
        if out.get('fail'):
            path = run.replay_path('bounded')
            json.dump({'property': run.pid, 'sidecar': sidecar, 'fid': fid, 'kind': 'bounded',
                       'inputs': out['fail']['inputs'], 'native': out['fail']}, open(path, 'w'), indent=1)
            run.violations.append({'fid': fid, 'clause': native_clause(out['fail']['detail'], ''), 'kind': 'bounded',
                                   'replay': path, 'note': out['fail']['detail'], 'input': True})
    for item in cfg.get('custom', []):
        # custom native bounded checks (sidecar function run under /venv/bin/python)
        sidecar, fn = item[0], item[1]
        code, out, raw = native(['custom', sidecar, fn, run.tier], timeout=7200)
        if not out or 'cases' not in out:
            run.errors.append(f'custom bounded check {sidecar}.{fn} failed: {raw[-1500:]}')
            continue
        run.bounded.append({'function': f'{sidecar}.{fn}', 'cases': out['cases'],
                            'nontrivial': out.get('nontrivial', out['cases']),
                            'bound': item[2] if len(item) > 2 and item[2] else out.get('bound', ''),
                            'wall_s': out['wall_s'], 'samples': out.get('samples', [])[:2]})
        only = re.compile(item[3]) if len(item) > 3 and item[3] else None
        for fl in ([out['fail']] if out.get('fail') else []) + list(out.get('fails', [])):
            if only is not None and not only.search(fl.get('clause', '')):
                continue  # this property only uses the clauses of the shared check that match item[3]
            path = run.replay_path('bounded')
            json.dump({'property': run.pid, 'sidecar': sidecar, 'kind': 'custom', 'replay_fn': fl.get('replay_fn', fn + '_replay'),
                       'fid': fl.get('fid', f'{sidecar}.{fn}'), 'case': fl.get('case'), 'native': fl}, open(path, 'w'), indent=1)
            v = {'fid': fl.get('fid', f'{sidecar}.{fn}'), 'clause': fl.get('clause', fl.get('detail', '')),
                 'kind': 'bounded', 'replay': path, 'note': fl.get('detail', ''), 'input': True}
            if isinstance(fl.get('also'), list):
                # every failing case of this clause (capped by the check): a known finding is identified by its
                # recorded cases, any other failing case of the same clause is reported as a new violation
                v['also'] = fl['also']
                v['custom'] = {'sidecar': sidecar, 'replay_fn': fl.get('replay_fn', fn + '_replay')}
            run.violations.append(v)


KNOWN_CASES = os.path.join(ROOT, 'known_cases.json')


def case_key(pid, fid, clause):
    return f'{pid}|{fid}|{clause}'


def apply_known(run):
    known = load_json(KNOWN, {'known': [], 'fixed': []})
    cases = load_json(KNOWN_CASES, {})
    remaining = []
    seen = set()
    uniq = []
    for v in run.violations:
        key = (v['fid'], v['clause'], v['input'])
        if key not in seen:
            seen.add(key)
            uniq.append(v)
    run.violations = uniq
    for v in run.violations:
        hit = None
        for k in known.get('known', []):
            if run.pid not in (k['property'] if isinstance(k['property'], list) else [k['property']]):
                continue
            m = k['match']
            if m.get('fid') == v['fid'] and m.get('clause') == v['clause'] and v['input']:
                hit = k
                break
        if hit:
            if hit not in run.known_hits:
                run.known_hits.append(hit)
            recorded = cases.get(case_key(run.pid, v['fid'], v['clause']))
            if recorded is not None and v.get('also') is not None:
                rec = set(recorded)
                new = [c for c in v['also'] if json.dumps(c, sort_keys=True) not in rec]
                if new:
                    path = run.replay_path('bounded')
                    json.dump({'property': run.pid, 'sidecar': v['custom']['sidecar'], 'kind': 'custom',
                               'replay_fn': v['custom']['replay_fn'], 'fid': v['fid'], 'case': new[0],
                               'native': {'clause': v['clause'],
                                          'detail': 'failing input that is not among the recorded inputs of the known '
                                                    'finding for this clause', 'new_cases': new[:20]}},
                              open(path, 'w'), indent=1)
                    remaining.append({'fid': v['fid'], 'clause': v['clause'], 'kind': 'bounded', 'replay': path,
                                      'input': True,
                                      'note': f'{len(new)} failing input(s) not among the recorded inputs of the known '
                                              f'finding for this clause, first: {json.dumps(new[0], sort_keys=True)[:300]}'})
        else:
            remaining.append(v)
    dump = [{'fid': v['fid'], 'clause': v['clause'], 'also': v['also']} for v in run.violations if v.get('also') is not None]
    os.makedirs(os.path.join(ROOT, OUT + 'replays', run.pid), exist_ok=True)
    json.dump({'repo': REPO, 'fails': dump}, open(os.path.join(ROOT, OUT + 'replays', run.pid, f'fails_{run.tier}.json'), 'w'))
    run.violations = remaining
    return known


def write_evidence(run, cfg):
    os.makedirs(os.path.join(ROOT, OUT + 'evidence'), exist_ok=True)
    level = cfg.get('level', 'proof')
    open_known = len(run.known_hits)
    cov = {
        'obligations': run.n_obl,
        'discharged': run.n_dis,
        'checker_cmd': f'./check {run.pid} --tier {run.tier}',
        'trusted_base': run.trusted,
        'functions_under_contract': run.functions,
        'backends': run.backends,
        'solver_seconds': round(run.solver_s, 2),
        'samples': run.samples or [b['samples'] for b in run.bounded][:2] or ['(none)'],
        'bounded': run.bounded,
        'known_findings_reported': [k['what'] for k in run.known_hits],
        'undecided': run.undecided,
        'explanation': cfg.get('explanation', ''),
    }
    nb = sum(b['cases'] for b in run.bounded)
    nbt = sum(b['nontrivial'] for b in run.bounded)
    cov['evaluations'] = nb + run.n_obl
    cov['distinct_nontrivial'] = nbt + run.n_dis
    cov['rule'] = ('obligations: one per contract clause and execution path of the real function; '
                   'bounded: exhaustive enumeration of the stated finite domain, non-trivial = '
                   'precondition satisfied')
    if level == 'proof' and (run.n_obl != run.n_dis or run.n_obl == 0):
        level = 'other'
        cov['explanation'] = (cov['explanation'] + ' NOTE: not all obligations discharged on this run '
                              '(known findings or undecided); see known_findings_reported/undecided.')
    ev = {
        'property_id': run.pid, 'tier': run.tier, 'seed': run.seed, 'level': level,
        'coverage': cov, 'assumptions': run.assumptions + cfg.get('assumptions', []),
        'wall_s': round(time.time() - run.t0, 2), 'violations': len(run.violations),
    }
    json.dump(ev, open(os.path.join(ROOT, OUT + 'evidence', f'{run.pid}.json'), 'w'), indent=1)


def check(pid, tier, seed):
    sys.path.insert(0, ROOT)
    from contracts.props import PROPS

    if pid not in PROPS:
        log(f'property {pid} is not claimed (see MANIFEST.json not_applicable)')
        return 2
    cfg = PROPS[pid]
    run = Run(pid, tier, seed)
    work = os.path.join(ROOT, '.work')
    os.makedirs(work, exist_ok=True)
    budget = int(os.environ.get('VERIF_BUDGET_MS', 20000 if tier == 'quick' else 120000))
    try:
        if cfg.get('proof'):
            prove(run, cfg, budget)
        run_bounded(run, cfg)
    except Exception:
        run.errors.append('checker crashed: ' + traceback.format_exc()[-3000:])
    apply_known(run)
    write_evidence(run, cfg)
    for k in run.known_hits:
        log(f'KNOWN-FINDING: property={pid} {k["what"]}')
    log(f'[{pid}] obligations={run.n_obl} discharged={run.n_dis} backends={run.backends} '
        f'bounded_cases={sum(b["cases"] for b in run.bounded)} wall={time.time() - run.t0:.1f}s')
    if run.violations:
        for v in run.violations:
            tail = '' if v['input'] else ' no-failing-input-found'
            log(f'  violated: {v["fid"]} :: {v["clause"]} :: {v["note"]}')
            log(f'VIOLATION property={pid} replay={v["replay"]}{tail}')
        return 1
    if run.errors:
        for e in run.errors:
            log('CHECKER-ERROR', e)
        return 3
    if run.undecided:
        for u in run.undecided:
            log('UNDECIDED', u['fid'], u['why'])
        return 2
    return 0


def make_baseline():
    sys.path.insert(0, ROOT)
    from contracts.props import PROPS
    from . import api, solve, symexec

    out = {}
    seen = set()
    for pid, cfg in PROPS.items():
        for sidecar, names in cfg.get('proof', []):
            mod = importlib.import_module(sidecar)
            for ms in [m for m in api.MODULES.values() if m in getattr(mod, 'MODULES_HERE', [getattr(mod, 'M', None)])]:
                ex = symexec.get_exec(REPO, ms, api.REGISTRY)
                for q, c in ms.contracts.items():
                    if c.fid in seen or getattr(c, 'assumed', False):
                        continue
                    seen.add(c.fid)
                    try:
                        obs = symexec.verify_contract(ex, c)
                    except Exception as e:
                        log('skip', c.fid, e)
                        continue
                    oids = {}
                    for ob in obs:
                        txt, _ = solve.vc_text(ob)
                        oids[oid_of(ob)] = solve.vc_hash(txt)
                    out[c.fid] = {'src': ex.func_source_hash(q), 'n': len(oids),
                                  'vc': hashlib.sha256(''.join(sorted(oids.values())).encode()).hexdigest()[:16]}
                    log('baseline', c.fid, len(oids))
    json.dump(out, open(BASELINE, 'w'), indent=0, sort_keys=True)


def main():
    ap = argparse.ArgumentParser()
    ap.add_argument('what')
    ap.add_argument('arg', nargs='?')
    ap.add_argument('--tier', default=os.environ.get('VERIF_TIER', 'quick'))
    a = ap.parse_args()
    seed = int(os.environ.get('VERIF_SEED', '0'))
    if a.what == 'replay':
        if not a.arg or not os.path.exists(a.arg):
            log('usage: ./check replay <replay file written by a check>')
            return 3
        code, out, raw = native(['replay', a.arg])
        log(json.dumps(out) if out else raw)
        return code
    if a.what == 'baseline':
        make_baseline()
        return 0
    return check(a.what, a.tier, seed)


if __name__ == '__main__':
    sys.exit(main())
