#!/bin/bash
# usage: store_seeds.sh <verify log>  : copies confirmed seeds from /tmp/seed_out into /verif/seeded
log=$1
grep '^SEED' $log | while read -r line; do
  src=$(echo "$line" | awk '{print $2}'); p=$(basename $(dirname $src)); n=$(basename $src)
  if echo "$line" | grep -q "demo_clean_exit=0 demo_patched_exit=[1-9].*247 passed"; then
    d=/verif/seeded/${p}_$n; mkdir -p $d; cp $src/patch.diff $src/demo.py $src/meta.json $d/
    python3 - "$d" "$line" <<'PY'
import json,sys
d,line=sys.argv[1],sys.argv[2]
m=json.load(open(d+'/meta.json'))
m['confirmed_by_me']={'how':'tools/verify_seed.sh in a scratch worktree of /repo (demo on HEAD, demo with patch, pinned test suite with patch)','result':line}
json.dump(m,open(d+'/meta.json','w'),indent=1)
PY
  else echo "NOT CONFIRMED: $line"; fi
done
