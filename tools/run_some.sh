#!/bin/bash
# usage: run_some.sh <tier> <outdir> Cnn...   : runs the given checks one after the other
cd "$(dirname "$0")/.."
tier=$1; out=$2; shift 2
mkdir -p $out
for p in "$@"; do
  s=$(date +%s)
  ./check $p --tier $tier > $out/$p.log 2>&1
  rc=$?
  echo "$p exit=$rc wall=$(( $(date +%s) - s ))s viol=$(grep -c '^VIOLATION' $out/$p.log) known=$(grep -c '^KNOWN-FINDING' $out/$p.log)"
done
