#!/bin/bash
# usage: verify_seed.sh <seed dir with patch.diff demo.py> [skiptests]
# confirms in a scratch worktree: demo passes on HEAD, fails with the patch, pinned tests pass with it
d=$(readlink -f "$1"); tag=$(echo "$d" | tr '/' '_')
wt=/tmp/vs$tag
git -C /repo worktree remove --force $wt >/dev/null 2>&1
git -C /repo worktree add --detach $wt HEAD >/dev/null 2>&1 || { echo "worktree failed"; exit 3; }
cd $wt
PYTHONPATH=$wt/src timeout 900 /venv/bin/python $d/demo.py >/tmp/vs_clean$tag.log 2>&1; clean=$?
git apply $d/patch.diff || { echo "patch does not apply"; git -C /repo worktree remove --force $wt; exit 3; }
PYTHONPATH=$wt/src timeout 900 /venv/bin/python $d/demo.py >/tmp/vs_patched$tag.log 2>&1; patched=$?
tests="skipped"
if [ -z "$2" ]; then
  tests=$(PYTHONPATH=$wt/src /venv/bin/python -m pytest -ra -q -p no:cacheprovider --timeout=900 --continue-on-collection-errors 2>&1 | tail -1)
fi
cd /; git -C /repo worktree remove --force $wt
echo "SEED $1 demo_clean_exit=$clean demo_patched_exit=$patched tests: $tests"
