#!/bin/bash
# usage: run_seed.sh <seed dir> <Cnn> [<Cnn>...] : run checks against a scratch worktree with the seed applied
d=$(readlink -f "$1"); shift
wt=/var/tmp/seedwt_$(basename $d)_$$
git -C /repo worktree add --detach $wt HEAD >/dev/null 2>&1 || { echo "worktree failed"; exit 3; }
( cd $wt && git apply $d/patch.diff ) || { echo "patch does not apply"; git -C /repo worktree remove --force $wt; exit 3; }
for p in "$@"; do
  out=$(cd /verif && VERIF_REPO=$wt ./check $p 2>&1); code=$?
  echo "SEED $(basename $d) check $p exit=$code $(echo "$out" | grep -c '^VIOLATION') violation lines"
  echo "$out" | grep "violated:" | cut -c1-220 | head -4
done
git -C /repo worktree remove --force $wt
