#!/bin/bash
# runs every check of the given tier (default quick) one after the other; prints exit code and wall time
cd "$(dirname "$0")/.."
tier=${1:-quick}
out=${2:-/tmp/run_all_$tier}
mkdir -p $out
for n in 01 02 03 04 05 06 07 08 09 10 11 12 13 14 15 16 17 18 19 20; do
  s=$(date +%s)
  ./check C$n --tier $tier > $out/C$n.log 2>&1
  rc=$?
  echo "C$n exit=$rc wall=$(( $(date +%s) - s ))s viol=$(grep -c '^VIOLATION' $out/C$n.log) known=$(grep -c '^KNOWN-FINDING' $out/C$n.log)"
done
