#!/usr/bin/env python3
"""usage: accept_findings.py <Cnn> <log of ./check Cnn>  [--only <substring of fid>]
After manual triage: records the violations listed in a check log as known findings
(known_findings.json), keyed by fid + clause, with the observed detail as witness."""
import json
import re
import sys

pid, log = sys.argv[1], sys.argv[2]
only = sys.argv[4] if len(sys.argv) > 4 and sys.argv[3] == '--only' else None
k = json.load(open('/verif/known_findings.json'))
have = {(tuple(e['property']) if isinstance(e['property'], list) else (e['property'],), e['match']['fid'], e['match']['clause']) for e in k['known']}
n = 0
for line in open(log):
    m = re.match(r'\s+violated: (.*?) :: (.*?) :: (.*)$', line.rstrip('\n'))
    if not m:
        continue
    fid, clause, detail = m.groups()
    if only and only not in fid:
        continue
    if any(pid in props and f == fid and c == clause for props, f, c in have):
        continue
    k['known'].append({'property': pid, 'match': {'fid': fid, 'clause': clause},
                       'witness': detail[:400], 'what': f'{fid.split(":")[-1]}: {clause} -- observed: {detail[:300]}'})
    have.add(((pid,), fid, clause))
    n += 1
json.dump(k, open('/verif/known_findings.json', 'w'), indent=1)
print('recorded', n)
# failing inputs of each recorded clause (checks that report them): merged over the tiers that were run
import glob
import os
kc_path = '/verif/known_cases.json'
kc = json.load(open(kc_path)) if os.path.exists(kc_path) else {}
keys = {(e['match']['fid'], e['match']['clause']) for e in k['known']
        if pid in (e['property'] if isinstance(e['property'], list) else [e['property']])}
m = 0
for f in glob.glob(f'/verif/replays/{pid}/fails_*.json'):
    d = json.load(open(f))
    if d.get('repo') != '/repo':
        print('skipping', f, '(written by a run against', d.get('repo'), ')')
        continue
    for e in d['fails']:
        if (e['fid'], e['clause']) in keys:
            key = f"{pid}|{e['fid']}|{e['clause']}"
            cur = set(kc.get(key, []))
            new = {json.dumps(c, sort_keys=True) for c in e['also']}
            m += len(new - cur)
            kc[key] = sorted(cur | new)
json.dump(kc, open(kc_path, 'w'), indent=0, sort_keys=True)
print('recorded failing inputs', m)
