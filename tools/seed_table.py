#!/usr/bin/env python3
"""usage: seed_table.py <dir with seedrun logs named <prefix><seed>.log> <prefix>
Prints the markdown table of DESIGN.md section 6 from tools/run_seed.sh logs and seeded/*/meta.json."""
import glob
import json
import os
import re
import sys

logdir, prefix = sys.argv[1], sys.argv[2]
rows = []
caught = missed = 0
for d in sorted(glob.glob('/verif/seeded/C*_*')):
    sid = os.path.basename(d)
    meta = json.load(open(d + '/meta.json'))
    what = meta['what_breaks'].split('. ')[0].replace('|', '/').replace('\n', ' ')[:170]
    log = os.path.join(logdir, f'{prefix}{sid}.log')
    res = 'not run'
    if os.path.exists(log):
        txt = open(log).read()
        m = re.search(r'check (C\d+) exit=(\d+) (\d+) violation', txt)
        if m and m.group(2) == '1' and int(m.group(3)) > 0:
            v = re.search(r'violated: (\S+) :: (.*?) ::', txt)
            kind = 'proof obligation' if ('obligation `' in txt or 'postcondition fails' in txt or 'ensures[' in txt) else 'bounded clause'
            fn = v.group(1).split(':')[-1] if v else '?'
            cl = (v.group(2) if v else '')[:110].replace('|', '/')
            res = f'**caught** ({m.group(3)} VIOLATION lines; first: {kind} on `{fn}`: {cl})'
            caught += 1
        elif m and m.group(2) == '0':
            res = 'missed (check exits 0)'
            missed += 1
        elif 'patch does not apply' in txt:
            res = 'patch no longer applies'
        else:
            res = 'check did not decide (exit %s)' % (m.group(2) if m else '?')
            missed += 1
    rows.append(f'| {sid} | {", ".join(os.path.basename(f) for f in meta.get("files", []))} | {what} | {res} |')
print(f'{caught} of {caught + missed} seeds caught by the quick tier of the check of their own property.\n')
print('| seed | file | change | quick check of the property |')
print('|------|------|--------|------------------------------|')
print('\n'.join(rows))
